// lie.cpp — correspondence harness for the Lie-group layer (C01–C06, C15 partly, C17 partly).
// Includes /repo/include directly and calls the real code in-process.  Emits one protocol line
// per evaluated operation:  op group prec <inputs> | <implementation outputs> # stratum
//
// Build:  g++ -std=c++20 -O1 -I/repo/include -I<gen> -I/usr/include/eigen3 -DFAMILY=<n> lie.cpp
// Run:    ./lie <samples-per-op>      (VERIF_SEED from the environment)
#include <smooth/bundle.hpp>
#include <smooth/c1.hpp>
#include <smooth/derivatives.hpp>
#include <smooth/galilei.hpp>
#include <smooth/se2.hpp>
#include <smooth/se3.hpp>
#include <smooth/se_k_3.hpp>
#include <smooth/so2.hpp>
#include <smooth/so3.hpp>

#include <sstream>

#include "common.hpp"

using namespace vh;

#ifndef FAMILY
#define FAMILY 0
#endif

// ------------------------------------------------------------------ tangent generators
template<class G>
struct Gen;  // Gen<G>::tangent(rng, angle_stratum, kind, trans_stratum), Gen<G>::name()

template<class S>
S sw()
{
  return std::sqrt(S(smooth::eps2));
}

template<class S>
struct Gen<smooth::SO2<S>>
{
  using G = smooth::SO2<S>;
  static std::string name() { return "SO2"; }
  static void rot_slots(std::vector<std::pair<int, int>> & o, int base) { o.push_back({base, 2}); }
  static typename G::Tangent tangent(Rng & r, int as, int kind, int)
  {
    typename G::Tangent a;
    a(0) = S(r.sign() * gen_angle(r, as, kind, sw<S>()));
    return a;
  }
};
template<class S>
struct Gen<smooth::C1<S>>
{
  using G = smooth::C1<S>;
  static std::string name() { return "C1"; }
  static void rot_slots(std::vector<std::pair<int, int>> &, int) {}
  static typename G::Tangent tangent(Rng & r, int as, int kind, int)
  {
    typename G::Tangent a;
    a(0) = S(r.uni(-3, 3));
    a(1) = S(r.sign() * gen_angle(r, as, kind, sw<S>()));
    return a;
  }
};
template<class S>
struct Gen<smooth::SO3<S>>
{
  using G = smooth::SO3<S>;
  static std::string name() { return "SO3"; }
  static void rot_slots(std::vector<std::pair<int, int>> & o, int base) { o.push_back({base, 3}); }
  static typename G::Tangent tangent(Rng & r, int as, int kind, int)
  {
    return gen_dir3<S>(r) * S(gen_angle(r, as, kind, sw<S>()));
  }
};
template<class S>
struct Gen<smooth::SE2<S>>
{
  using G = smooth::SE2<S>;
  static std::string name() { return "SE2"; }
  static void rot_slots(std::vector<std::pair<int, int>> & o, int base) { o.push_back({base + 2, 2}); }
  static typename G::Tangent tangent(Rng & r, int as, int kind, int ts)
  {
    typename G::Tangent a;
    a(0) = S(gen_trans(r, ts));
    a(1) = S(gen_trans(r, ts));
    a(2) = S(r.sign() * gen_angle(r, as, kind, sw<S>()));
    return a;
  }
};
template<class S>
struct Gen<smooth::SE3<S>>
{
  using G = smooth::SE3<S>;
  static std::string name() { return "SE3"; }
  static void rot_slots(std::vector<std::pair<int, int>> & o, int base) { o.push_back({base + 3, 3}); }
  static typename G::Tangent tangent(Rng & r, int as, int kind, int ts)
  {
    typename G::Tangent a;
    for (int i = 0; i < 3; ++i) a(i) = S(gen_trans(r, ts));
    a.template tail<3>() = gen_dir3<S>(r) * S(gen_angle(r, as, kind, sw<S>()));
    return a;
  }
};
template<class S>
struct Gen<smooth::Galilei<S>>
{
  using G = smooth::Galilei<S>;
  static std::string name() { return "GAL"; }
  static void rot_slots(std::vector<std::pair<int, int>> & o, int base) { o.push_back({base + 7, 3}); }
  static typename G::Tangent tangent(Rng & r, int as, int kind, int ts)
  {
    typename G::Tangent a;
    for (int i = 0; i < 6; ++i) a(i) = S(gen_trans(r, ts));
    a(6) = S(r.below(4) == 0 ? 0.0 : r.uni(-10, 10));
    a.template tail<3>() = gen_dir3<S>(r) * S(gen_angle(r, as, kind, sw<S>()));
    return a;
  }
};
template<class S, int K>
struct Gen<smooth::SE_K_3<S, K>>
{
  using G = smooth::SE_K_3<S, K>;
  static std::string name() { return "SEK" + std::to_string(K); }
  static void rot_slots(std::vector<std::pair<int, int>> & o, int base) { o.push_back({base + 3 * K, 3}); }
  static typename G::Tangent tangent(Rng & r, int as, int kind, int ts)
  {
    typename G::Tangent a;
    for (int i = 0; i < 3 * K; ++i) a(i) = S(gen_trans(r, ts));
    a.template tail<3>() = gen_dir3<S>(r) * S(gen_angle(r, as, kind, sw<S>()));
    return a;
  }
};
template<class S, int N>
struct Gen<Eigen::Matrix<S, N, 1>>
{
  using G = Eigen::Matrix<S, N, 1>;
  static std::string name() { return "T" + std::to_string(N); }
  static void rot_slots(std::vector<std::pair<int, int>> &, int) {}
  static G tangent(Rng & r, int, int, int ts)
  {
    G a;
    for (int i = 0; i < N; ++i) a(i) = S(gen_trans(r, ts));
    return a;
  }
};
template<class... Gs>
struct Gen<smooth::Bundle<Gs...>>
{
  using G = smooth::Bundle<Gs...>;
  static std::string name()
  {
    std::string s = "B[";
    bool first    = true;
    ((s += (first ? "" : ",") + Gen<Gs>::name(), first = false), ...);
    return s + "]";
  }
  static void rot_slots(std::vector<std::pair<int, int>> & o, int base)
  {
    int off = base;
    ((Gen<Gs>::rot_slots(o, off), off += int(smooth::liebase_info<Gs>::Impl::RepSize)), ...);
  }
  static typename G::Tangent tangent(Rng & r, int as, int kind, int ts)
  {
    typename G::Tangent a;
    int off = 0;
    (
      [&] {
        // vary the strata between parts so that not all parts sit in the same branch
        const int as_i = (as + r.below(2) * r.below(N_ANGLE_STRATA)) % N_ANGLE_STRATA;
        auto ai        = Gen<Gs>::tangent(r, as_i, kind, ts + r.below(2));
        a.segment(off, ai.size()) = ai;
        off += int(ai.size());
      }(),
      ...);
    return a;
  }
};

// d2r_exp / d2r_expinv are not implemented for Galilei and SE_K_3 (their LieGroupBase members do
// not compile), hence not for Bundles containing them
template<class G>
struct HasHess : std::true_type
{};
template<class S>
struct HasHess<smooth::Galilei<S>> : std::false_type
{};
template<class S, int K>
struct HasHess<smooth::SE_K_3<S, K>> : std::false_type
{};
template<class... Gs>
struct HasHess<smooth::Bundle<Gs...>> : std::bool_constant<(HasHess<Gs>::value && ...)>
{};

// LieGroup-style uniform access for Eigen vectors (they have no member API)
template<class G>
constexpr bool is_eigen_v = std::is_base_of_v<Eigen::MatrixBase<G>, G>;

// ------------------------------------------------------------------ evaluation of one request
// Flattening is row-major (the protocol's convention).
template<class S>
struct Args
{
  const std::vector<S> & x;
  size_t off = 0;
  bool ok    = true;
  template<class V>
  V vec()
  {
    V v;
    if (off + size_t(v.size()) > x.size()) {
      ok = false;
      v.setZero();
      return v;
    }
    for (Eigen::Index i = 0; i < v.rows(); ++i)
      for (Eigen::Index j = 0; j < v.cols(); ++j) v(i, j) = x[off++];
    return v;
  }
  bool done() const { return ok && off == x.size(); }
};

template<class S, class D>
void put(std::vector<S> & out, const Eigen::MatrixBase<D> & m)
{
  for (Eigen::Index i = 0; i < m.rows(); ++i)
    for (Eigen::Index j = 0; j < m.cols(); ++j) out.push_back(S(m(i, j)));
}

template<class G>
G from_coeffs(const Eigen::Matrix<typename smooth::liebase_info<G>::Scalar, G::RepSize, 1> & c)
{
  G g;
  g.coeffs() = c;
  return g;
}

// Evaluate `op` of the LieGroupBase interface of G on the flat inputs x.  Returns false when the
// op is not available for G or the arity is wrong.
template<class G>
bool eval_group(const std::string & op, const std::vector<typename smooth::liebase_info<G>::Scalar> & x,
  std::vector<typename smooth::liebase_info<G>::Scalar> & out)
{
  using S       = typename smooth::liebase_info<G>::Scalar;
  using Tangent = typename G::Tangent;
  using Coef    = Eigen::Matrix<S, G::RepSize, 1>;
  Args<S> A{x};
  if (op == "identity") {
    put(out, G::Identity().coeffs());
  } else if (op == "matrix") {
    put(out, from_coeffs<G>(A.template vec<Coef>()).matrix());
  } else if (op == "compose") {
    const G g1 = from_coeffs<G>(A.template vec<Coef>()), g2 = from_coeffs<G>(A.template vec<Coef>());
    put(out, (g1 * g2).coeffs());
  } else if (op == "mulassign") {  // in-place composition, right operand in separate storage
    G x = from_coeffs<G>(A.template vec<Coef>());
    const G g2 = from_coeffs<G>(A.template vec<Coef>());
    x *= g2;
    put(out, x.coeffs());
  } else if (op == "sqassign") {  // x *= x : the right operand IS the left one (same object)
    G x = from_coeffs<G>(A.template vec<Coef>());
    x *= x;
    put(out, x.coeffs());
  } else if (op == "mulassign_map") {  // x *= Map<const G>(x.data()) : aliased through a view
    G x = from_coeffs<G>(A.template vec<Coef>());
    smooth::Map<const G> m(x.data());
    x *= m;
    put(out, x.coeffs());
  } else if (op == "fcompose") {  // free-function API of concepts/lie_group.hpp
    const G g1 = from_coeffs<G>(A.template vec<Coef>()), g2 = from_coeffs<G>(A.template vec<Coef>());
    put(out, smooth::composition(g1, g2).coeffs());
  } else if (op == "finverse") {
    put(out, smooth::inverse(from_coeffs<G>(A.template vec<Coef>())).coeffs());
  } else if (op == "compose3l") {  // (g1 g2) g3
    const G g1 = from_coeffs<G>(A.template vec<Coef>()), g2 = from_coeffs<G>(A.template vec<Coef>()),
            g3 = from_coeffs<G>(A.template vec<Coef>());
    put(out, ((g1 * g2) * g3).coeffs());
  } else if (op == "compose3r") {  // g1 (g2 g3)
    const G g1 = from_coeffs<G>(A.template vec<Coef>()), g2 = from_coeffs<G>(A.template vec<Coef>()),
            g3 = from_coeffs<G>(A.template vec<Coef>());
    put(out, (g1 * (g2 * g3)).coeffs());
  } else if (op == "inverse") {
    put(out, from_coeffs<G>(A.template vec<Coef>()).inverse().coeffs());
  } else if (op == "log") {
    put(out, from_coeffs<G>(A.template vec<Coef>()).log());
  } else if (op == "exp") {
    put(out, G::exp(A.template vec<Tangent>()).coeffs());
  } else if (op == "logexp") {  // log(exp(a))
    put(out, G::exp(A.template vec<Tangent>()).log());
  } else if (op == "hat") {
    put(out, G::hat(A.template vec<Tangent>()));
  } else if (op == "vee") {
    put(out, G::vee(A.template vec<typename G::Matrix>()));
  } else if (op == "Ad") {
    put(out, from_coeffs<G>(A.template vec<Coef>()).Ad());
  } else if (op == "Adexp") {  // Ad(exp(a))
    put(out, G::exp(A.template vec<Tangent>()).Ad());
  } else if (op == "ad") {
    put(out, G::ad(A.template vec<Tangent>()));
  } else if (op == "bracket") {
    const Tangent a = A.template vec<Tangent>(), b = A.template vec<Tangent>();
    put(out, G::lie_bracket(a, b));
  } else if (op == "dr_exp") {
    put(out, G::dr_exp(A.template vec<Tangent>()));
  } else if (op == "dl_exp") {
    put(out, G::dl_exp(A.template vec<Tangent>()));
  } else if (op == "dr_expinv") {
    put(out, G::dr_expinv(A.template vec<Tangent>()));
  } else if (op == "dl_expinv") {
    put(out, G::dl_expinv(A.template vec<Tangent>()));
  } else if (op == "rplus") {
    const G g = from_coeffs<G>(A.template vec<Coef>());
    put(out, (g + A.template vec<Tangent>()).coeffs());
  } else if (op == "rminus") {
    const G g1 = from_coeffs<G>(A.template vec<Coef>()), g2 = from_coeffs<G>(A.template vec<Coef>());
    put(out, g1 - g2);
  } else if (op == "fcompose3") {  // variadic free composition(g1, g2, g3) = (g1 g2) g3
    const G g1 = from_coeffs<G>(A.template vec<Coef>()), g2 = from_coeffs<G>(A.template vec<Coef>()),
            g3 = from_coeffs<G>(A.template vec<Coef>());
    put(out, smooth::composition(g1, g2, g3).coeffs());
  } else if (op == "compose_cmap") {  // both operands are const views over caller-owned memory
    const Coef c1 = A.template vec<Coef>(), c2 = A.template vec<Coef>();
    const smooth::Map<const G> m1(c1.data()), m2(c2.data());
    put(out, (m1 * m2).coeffs());
  } else if (op == "inverse_cmap") {
    const Coef c1 = A.template vec<Coef>();
    const smooth::Map<const G> m1(c1.data());
    put(out, m1.inverse().coeffs());
  } else if (op == "mulassign_mapself") {  // Map<G> m over x's storage; m *= x  (receiver is the view, operand the value)
    G x = from_coeffs<G>(A.template vec<Coef>());
    smooth::Map<G> m(x.data());
    m *= x;
    put(out, x.coeffs());
  } else if (op == "mulassign_mapmap") {  // two views over ONE buffer: Map<G> m *= Map<const G> c
    Coef buf = A.template vec<Coef>();
    smooth::Map<G> m(buf.data());
    const smooth::Map<const G> c(buf.data());
    m *= c;
    put(out, buf);
  } else if (op == "identity_free") {
    put(out, smooth::Identity<G>().coeffs());
  } else if (op == "set_identity") {  // member setIdentity() on a value holding arbitrary coefficients
    G x = from_coeffs<G>(A.template vec<Coef>());
    x.setIdentity();
    put(out, x.coeffs());
  } else if (op == "set_identity_map") {
    Coef buf = A.template vec<Coef>();
    smooth::Map<G> m(buf.data());
    m.setIdentity();
    put(out, buf);
  } else if (op == "consts") {  // RepSize Dof Dim IsCommutative dof() smooth::dof(g) smooth::Dof<G> smooth::IsCommutative<G>
    const G g = G::Identity();
    out.push_back(S(G::RepSize));
    out.push_back(S(G::Dof));
    out.push_back(S(G::Dim));
    out.push_back(S(G::IsCommutative ? 1 : 0));
    out.push_back(S(g.dof()));
    out.push_back(S(smooth::dof(g)));
    out.push_back(S(smooth::Dof<G>));
    out.push_back(S(smooth::IsCommutative<G> ? 1 : 0));
  } else if (op == "isapprox" || op == "fisapprox") {  // inputs g1 g2 eps; eps < 0 stands for "use the default argument"
    const G g1 = from_coeffs<G>(A.template vec<Coef>()), g2 = from_coeffs<G>(A.template vec<Coef>());
    const S eps = A.template vec<Eigen::Matrix<S, 1, 1>>()(0);
    bool r;
    if (op == "isapprox") r = g1.isApprox(g2, eps);
    else r = smooth::isApprox(g1, g2, eps);
    out.push_back(S(r ? 1 : 0));
  } else if (op == "isapprox_default") {  // called WITHOUT eps (default = NumTraits<S>::dummy_precision(), passed as the last
    // input word only so that the model knows it); member and free function
    const G g1 = from_coeffs<G>(A.template vec<Coef>()), g2 = from_coeffs<G>(A.template vec<Coef>());
    (void)A.template vec<Eigen::Matrix<S, 1, 1>>();
    out.push_back(S(g1.isApprox(g2) ? 1 : 0));
    out.push_back(S(smooth::isApprox(g1, g2) ? 1 : 0));
  } else if (op == "stream") {  // operator<<: the coefficients, printed with 17 significant digits, parsed back
    const G g = from_coeffs<G>(A.template vec<Coef>());
    std::ostringstream os;
    os.precision(17);
    os << g;
    std::istringstream is(os.str());
    double v;
    while (is >> v) out.push_back(S(v));
  } else if (op == "random_elem") {  // an element produced by one of the four public ways to draw a random element travels in the
    // INPUT slot (there is nothing to predict); the check audits the representation constraint on it.  No outputs.
    (void)A.template vec<Coef>();
  } else if (op == "fexp") {
    put(out, smooth::exp<G>(A.template vec<Tangent>()).coeffs());
  } else if (op == "flog") {
    put(out, smooth::log(from_coeffs<G>(A.template vec<Coef>())));
  } else if (op == "log_cmap") {
    const Coef c1 = A.template vec<Coef>();
    const smooth::Map<const G> m1(c1.data());
    put(out, m1.log());
  } else if (op == "frplus") {
    const G g = from_coeffs<G>(A.template vec<Coef>());
    put(out, smooth::rplus(g, A.template vec<Tangent>()).coeffs());
  } else if (op == "frminus") {
    const G g1 = from_coeffs<G>(A.template vec<Coef>()), g2 = from_coeffs<G>(A.template vec<Coef>());
    put(out, smooth::rminus(g1, g2));
  } else if (op == "lplus") {
    const G g = from_coeffs<G>(A.template vec<Coef>());
    put(out, smooth::lplus(g, A.template vec<Tangent>()).coeffs());
  } else if (op == "lminus") {
    const G g1 = from_coeffs<G>(A.template vec<Coef>()), g2 = from_coeffs<G>(A.template vec<Coef>());
    put(out, smooth::lminus(g1, g2));
  } else if (op == "pluseq") {  // in-place right-plus on a value
    G x = from_coeffs<G>(A.template vec<Coef>());
    x += A.template vec<Tangent>();
    put(out, x.coeffs());
  } else if (op == "pluseq_map") {  // in-place right-plus through a view
    Coef buf = A.template vec<Coef>();
    smooth::Map<G> m(buf.data());
    m += A.template vec<Tangent>();
    put(out, buf);
  } else if (op == "pluseq_log") {  // x += x.log() : the tangent is computed from the object that is updated
    G x = from_coeffs<G>(A.template vec<Coef>());
    x += x.log();
    put(out, x.coeffs());
  } else if (op == "rminus_cmap") {
    const Coef c1 = A.template vec<Coef>(), c2 = A.template vec<Coef>();
    const smooth::Map<const G> m1(c1.data());
    const G g2 = from_coeffs<G>(c2);
    put(out, m1 - g2);
  } else if (op == "fAd") {
    put(out, smooth::Ad(from_coeffs<G>(A.template vec<Coef>())));
  } else if (op == "Ad_cmap") {
    const Coef c1 = A.template vec<Coef>();
    const smooth::Map<const G> m1(c1.data());
    put(out, m1.Ad());
  } else if (op == "fad") {
    put(out, smooth::ad<G>(A.template vec<Tangent>()));
  } else if (op == "fdr_exp") {
    put(out, smooth::dr_exp<G>(A.template vec<Tangent>()));
  } else if (op == "fdr_expinv") {
    put(out, smooth::dr_expinv<G>(A.template vec<Tangent>()));
  } else if (op == "fdl_exp") {
    put(out, smooth::dl_exp<G>(A.template vec<Tangent>()));
  } else if (op == "fdl_expinv") {
    put(out, smooth::dl_expinv<G>(A.template vec<Tangent>()));
  } else if (op == "dr_rminus") {
    put(out, smooth::dr_rminus<G>(A.template vec<Tangent>()));
  } else if (op == "dr_rminus_sqn") {
    put(out, smooth::dr_rminus_squarednorm<G>(A.template vec<Tangent>()));
  } else if constexpr (HasHess<G>::value) {
    if (op == "d2r_exp") {
      put(out, G::d2r_exp(A.template vec<Tangent>()));
    } else if (op == "d2l_exp") {
      put(out, G::d2l_exp(A.template vec<Tangent>()));
    } else if (op == "d2r_expinv") {
      put(out, G::d2r_expinv(A.template vec<Tangent>()));
    } else if (op == "d2l_expinv") {
      put(out, G::d2l_expinv(A.template vec<Tangent>()));
    } else if (op == "fd2r_exp") {
      put(out, smooth::d2r_exp<G>(A.template vec<Tangent>()));
    } else if (op == "fd2r_expinv") {
      put(out, smooth::d2r_expinv<G>(A.template vec<Tangent>()));
    } else if (op == "fd2l_exp") {
      put(out, smooth::d2l_exp<G>(A.template vec<Tangent>()));
    } else if (op == "fd2l_expinv") {
      put(out, smooth::d2l_expinv<G>(A.template vec<Tangent>()));
    } else if (op == "d2r_rminus") {
      put(out, smooth::d2r_rminus<G>(A.template vec<Tangent>()));
    } else if (op == "d2r_rminus_sqn") {
      put(out, smooth::d2r_rminus_squarednorm<G>(A.template vec<Tangent>()));
    } else {
      return false;
    }
  } else {
    return false;
  }
  return A.done();
}

// group actions through the public classes
template<class G, int NV>
bool eval_action(const std::string & op, const std::vector<typename G::Scalar> & x, std::vector<typename G::Scalar> & out)
{
  using S    = typename G::Scalar;
  using Coef = Eigen::Matrix<S, G::RepSize, 1>;
  Args<S> A{x};
  if (op == "act") {
    const G g = from_coeffs<G>(A.template vec<Coef>());
    const Eigen::Matrix<S, NV, 1> v = A.template vec<Eigen::Matrix<S, NV, 1>>();
    put(out, g * v);
  } else if (op == "act_cmap") {
    const Coef c = A.template vec<Coef>();
    const smooth::Map<const G> m(c.data());
    const Eigen::Matrix<S, NV, 1> v = A.template vec<Eigen::Matrix<S, NV, 1>>();
    put(out, m * v);
  } else if (op == "dr_action" || op == "dr_action_cmap") {
    if constexpr (!std::is_same_v<G, smooth::C1<S>>) {  // C1 has no dr_action
      const Coef c = A.template vec<Coef>();
      const Eigen::Matrix<S, NV, 1> v = A.template vec<Eigen::Matrix<S, NV, 1>>();
      if (op == "dr_action") {
        const G g = from_coeffs<G>(c);
        put(out, g.dr_action(v));
      } else {
        const smooth::Map<const G> m(c.data());
        put(out, m.dr_action(v));
      }
    } else {
      return false;
    }
  } else {
    return false;
  }
  return A.done();
}

template<class S>
void emit(FILE * f, const char * op, const std::string & grp, const std::vector<S> & x, const std::vector<S> & out, const char * tag)
{
  std::fprintf(f, "%s %s %s", op, grp.c_str(), Prec<S>::name);
  for (S v : x) Prec<S>::put(f, v);
  std::fprintf(f, " |");
  for (S v : out) Prec<S>::put(f, v);
  if (tag) std::fprintf(f, " # %s", tag);
  std::fprintf(f, "\n");
}

// ------------------------------------------------------------------ per-group generation
template<class G>
struct Emit
{
  using S       = typename smooth::liebase_info<G>::Scalar;
  using Tangent = typename G::Tangent;
  std::string gname;
  FILE * f;
  Rng & r;

  Tangent tan(int i, int kind) { return Gen<G>::tangent(r, i % N_ANGLE_STRATA, kind, (i / N_ANGLE_STRATA) + r.below(6)); }
  const char * tag(int i) { return angle_stratum_name(i % N_ANGLE_STRATA); }

  // group elements: exp of a stratified tangent, sometimes composed (so that products with
  // negative real part before canonicalisation occur) or inverted
  G elem(int i)
  {
    G g = G::exp(tan(i, 0));
    if (i % 7 == 3) g = g * G::exp(tan(i + 1, 0));
    if (i % 11 == 5) g = g.inverse();
    if (i % 13 == 7) {
      // exact half-turn in every rotation factor: quaternion (axis,0) with w exactly 0 / complex (0,-1)
      std::vector<std::pair<int, int>> slots;
      Gen<G>::rot_slots(slots, 0);
      auto c = g.coeffs();
      for (auto [off, kind] : slots) {
        if (kind == 2) {
          c(off) = S(0); c(off + 1) = S(-1);
        } else {
          const int ax = r.below(3);
          for (int k = 0; k < 4; ++k) c(off + k) = S(0);
          c(off + ax) = S(r.sign());
        }
      }
      g.coeffs() = c;
    }
    return g;
  }

  template<class... Ts>
  void go(const char * op, const char * tg, const Ts &... parts)
  {
    std::vector<S> x, out;
    (put(x, parts), ...);
    if (eval_group<G>(op, x, out)) emit<S>(f, op, gname, x, out, tg);
  }

  void run(int n)
  {
    go("identity", "");
    for (int i = 0; i < n; ++i) {
      const G g1 = elem(i), g2 = elem(n + 3 * i + 1), g3 = elem(2 * n + 5 * i + 2);
      const Tangent a = tan(i, 0), al = tan(i, 1), b = tan(i + 5, 0), c = tan(i + 2, 0);
      const char * t = tag(i);
      go("matrix", t, g1.coeffs());
      go("compose", t, g1.coeffs(), g2.coeffs());
      go("mulassign", t, g1.coeffs(), g2.coeffs());
      go("sqassign", t, g1.coeffs());
      go("mulassign_map", t, g2.coeffs());
      go("fcompose", t, g2.coeffs(), g3.coeffs());
      go("finverse", t, g3.coeffs());
      go("compose3l", t, g1.coeffs(), g2.coeffs(), g3.coeffs());
      go("compose3r", t, g1.coeffs(), g2.coeffs(), g3.coeffs());
      go("inverse", t, g1.coeffs());
      const Tangent a2 = tan(i, 2);
      {
        const G gl = G::exp(a2);
        go("log", t, gl.coeffs());
        const G gp = G::exp(al) * G::exp(tan(i + 3, 1) * S(0.3));
        go("log", "product", gp.coeffs());
        go("log", t, g1.coeffs());
      }
      go("exp", t, a);
      go("logexp", t, a2);
      go("hat", t, a);
      {
        const typename G::Matrix A = G::hat(a);
        go("vee", t, A);
      }
      go("Ad", t, g1.coeffs());
      go("Adexp", t, al);
      go("ad", t, a);
      go("bracket", t, a, b);
      {  // whole-argument scalings: bilinearity must hold however small one argument is
        const S tiny = std::is_same_v<S, double> ? S(1e-14) : S(1e-7);
        const Tangent at = a * tiny, bt = b * tiny, bb = b / tiny;
        go("ad", "tiny_a", at);
        go("bracket", "tiny_a", at, b);
        go("ad", "tiny_b", a);
        go("bracket", "tiny_b", a, bt);
        go("ad", "scaled", at);
        go("bracket", "scaled", at, bb);
      }
      go("dr_exp", t, a);
      go("dl_exp", t, a);
      go("dr_expinv", t, al);
      go("dl_expinv", t, al);
      go("rplus", t, g1.coeffs(), c);
      {
        const G gm = g1 * G::exp(al);
        go("rminus", t, gm.coeffs(), g1.coeffs());
      }
      go("dr_rminus", t, al);
      go("dr_rminus_sqn", t, al);
      go("d2r_exp", t, a);
      go("d2l_exp", t, a);
      go("d2r_expinv", t, al);
      go("d2l_expinv", t, al);
      go("d2r_rminus", t, al);
      go("d2r_rminus_sqn", t, al);
      api_ops(i, n, g1, g2, g3, a, al, a2, b, c, t);
    }
    api_regions(n);
  }

  // ---- API paths beside the member functions above: the free-function interface of concepts/lie_group.hpp,
  // the in-place operators, const views as receivers.  Thinned (i % 3) where the path is a one-line forward.
  using Coef = Eigen::Matrix<S, G::RepSize, 1>;
  void api_ops(int i, int n, const G & g1, const G & g2, const G & g3, const Tangent & a, const Tangent & al, const Tangent & a2,
    const Tangent & b, const Tangent & c, const char * t)
  {
    (void)n; (void)b;
    const G gm = g1 * G::exp(al);
    go("pluseq", t, g1.coeffs(), c);
    go("pluseq_map", t, g2.coeffs(), c);
    go("lplus", t, g1.coeffs(), c);
    go("lminus", t, gm.coeffs(), g1.coeffs());
    if (i % 3 == 0) {
      go("fcompose3", t, g1.coeffs(), g2.coeffs(), g3.coeffs());
      go("compose_cmap", t, g1.coeffs(), g2.coeffs());
      go("inverse_cmap", t, g1.coeffs());
      go("mulassign_mapself", t, g3.coeffs());
      go("mulassign_mapmap", t, g1.coeffs());
      go("set_identity", t, g1.coeffs());
      go("set_identity_map", t, g2.coeffs());
      go("stream", t, g1.coeffs());
      go("fexp", t, a);
      go("flog", t, G::exp(a2).coeffs());
      go("log_cmap", t, g1.coeffs());
      go("frplus", t, g1.coeffs(), c);
      go("frminus", t, gm.coeffs(), g1.coeffs());
      go("rminus_cmap", t, gm.coeffs(), g1.coeffs());
      go("pluseq_log", t, G::exp(a2 * S(0.4)).coeffs());
      go("fAd", t, g1.coeffs());
      go("Ad_cmap", t, g2.coeffs());
      go("fad", t, a);
      go("fdr_exp", t, a);
      go("fdr_expinv", t, al);
      go("fdl_exp", t, a);
      go("fdl_expinv", t, al);
      go("fd2r_exp", t, a);
      go("fd2r_expinv", t, al);
      go("fd2l_exp", t, a);
      go("fd2l_expinv", t, al);
    }
    {  // isApprox: identical, perturbed far below / far above the threshold, unrelated
      using E1 = Eigen::Matrix<S, 1, 1>;
      const S dp = Eigen::NumTraits<S>::dummy_precision();
      Tangent d  = Tangent::Zero();
      if (d.size() > 0) d(i % d.size()) = S(1);
      // far from every threshold: relative coefficient distance <= 1e-3 dp resp. >= 1e-4 (translations up to 1e3) resp. ~5e-3
      const G near = g1 * G::exp(d * (dp * S(1e-3))), far = g1 * G::exp(d * S(1)), mid = g1 * G::exp(d * S(1e-2));
      go("isapprox", "same", g1.coeffs(), g1.coeffs(), E1(dp));
      go("isapprox", "below", g1.coeffs(), near.coeffs(), E1(dp));
      go("isapprox", "above", g1.coeffs(), far.coeffs(), E1(dp));
      go("fisapprox", "other", g1.coeffs(), g2.coeffs(), E1(dp));
      go("fisapprox", "loose", g1.coeffs(), mid.coeffs(), E1(S(0.5)));
      // the default threshold itself: coefficient vectors at relative distance dp/4 and 4 dp (isApprox reads coefficients only)
      const Coef cb = g1.coeffs() * (S(1) + dp / S(4)), ca = g1.coeffs() * (S(1) + dp * S(4));
      go("isapprox_default", "below", g1.coeffs(), cb, E1(dp));
      go("isapprox_default", "above", g1.coeffs(), ca, E1(dp));
      go("isapprox", "below", g1.coeffs(), cb, E1(dp));
      go("fisapprox", "above", g1.coeffs(), ca, E1(dp));
    }
  }

  // ---- input regions that the stratified tangents above do not reach: the zero tangent, whole-argument-tiny tangents
  // (EVERY coordinate tiny, not only the rotation angle), the identity element, identical operands
  void api_regions(int n)
  {
    go("identity_free", "");
    go("consts", "");
    {
      std::srand(unsigned(r.next() & 0x7fffffff));
      for (int k = 0; k < 2; ++k) {
        go("random_elem", "Random", G::Random().coeffs());
        go("random_elem", "free_Random", smooth::Random<G>().coeffs());
        go("random_elem", "free_Random_dof", smooth::Random<G>(G::Dof).coeffs());
        G x = G::Identity();
        x.setRandom();
        go("random_elem", "setRandom", x.coeffs());
        Coef buf = Coef::Zero();
        smooth::Map<G> mp(buf.data());
        mp.setRandom();
        go("random_elem", "setRandom_map", buf);
      }
    }
    const G e = G::Identity();
    const Tangent z = Tangent::Zero();
    for (const char * op : {"exp", "fexp", "logexp", "hat", "ad", "fad", "dr_exp", "dr_expinv", "dl_exp", "dl_expinv", "fdr_exp", "d2r_exp", "d2r_expinv",
           "d2l_exp", "d2l_expinv", "dr_rminus", "dr_rminus_sqn", "d2r_rminus", "d2r_rminus_sqn", "Adexp"})
      go(op, "zero_vec", z);
    for (const char * op : {"log", "flog", "log_cmap", "inverse", "finverse", "inverse_cmap", "matrix", "Ad", "fAd", "sqassign", "mulassign_map", "mulassign_mapself",
           "mulassign_mapmap", "pluseq_log"})
      go(op, "identity_elem", e.coeffs());
    go("rplus", "identity_elem", e.coeffs(), z);
    go("rminus", "identity_elem", e.coeffs(), e.coeffs());
    go("lminus", "identity_elem", e.coeffs(), e.coeffs());
    go("bracket", "zero_vec", z, z);
    const int m = std::max(2, n / 6);
    for (int i = 0; i < m; ++i) {
      const S tiny = std::is_same_v<S, double> ? S(i % 2 ? 1e-14 : 1e-9) : S(i % 2 ? 1e-7 : 1e-5);
      const Tangent at = tan(i + 4, 1) * tiny;
      const G g = elem(3 * i + 1), h = elem(5 * i + 2);
      for (const char * op : {"exp", "fexp", "logexp", "dr_exp", "dr_expinv", "dl_exp", "dl_expinv", "fdr_expinv", "fdl_exp", "d2r_exp", "d2r_expinv", "d2l_exp",
             "d2l_expinv", "fd2r_exp", "fd2l_expinv", "dr_rminus", "d2r_rminus", "dr_rminus_sqn", "d2r_rminus_sqn", "Adexp"})
        go(op, "tiny_a", at);
      go("rplus", "tiny_a", g.coeffs(), at);
      go("frplus", "tiny_a", g.coeffs(), at);
      go("lplus", "tiny_a", g.coeffs(), at);
      go("pluseq", "tiny_a", g.coeffs(), at);
      go("pluseq_map", "tiny_a", g.coeffs(), at);
      go("rplus", "zero_vec", g.coeffs(), z);
      go("pluseq", "zero_vec", g.coeffs(), z);
      go("lplus", "zero_vec", g.coeffs(), z);
      {
        const G gt = g * G::exp(at);  // operands that differ by a tiny tangent, and identical operands
        go("rminus", "tiny_a", gt.coeffs(), g.coeffs());
        go("frminus", "tiny_a", gt.coeffs(), g.coeffs());
        go("lminus", "tiny_a", gt.coeffs(), g.coeffs());
        go("rminus", "same_elem", g.coeffs(), g.coeffs());
        go("lminus", "same_elem", g.coeffs(), g.coeffs());
        go("rminus_cmap", "same_elem", g.coeffs(), g.coeffs());
      }
      // aliased in-place operators on every kind of element (elem() includes exact half turns, i % 13 == 7)
      go("sqassign", "alias", h.coeffs());
      go("mulassign_map", "alias", h.coeffs());
      go("mulassign_mapself", "alias", h.coeffs());
      go("mulassign_mapmap", "alias", h.coeffs());
      go("pluseq_log", "alias", G::exp(tan(i, 2) * S(0.45)).coeffs());
    }
    {  // exact half turns as operands of every element-valued op
      G hh = elem(7);
      go("log", "half_turn", hh.coeffs());
      go("flog", "half_turn", hh.coeffs());
      go("Ad", "half_turn", hh.coeffs());
      go("inverse", "half_turn", hh.coeffs());
      go("sqassign", "half_turn", hh.coeffs());
      go("mulassign_mapmap", "half_turn", hh.coeffs());
      go("rminus", "half_turn", hh.coeffs(), e.coeffs());
      go("lminus", "half_turn", hh.coeffs(), e.coeffs());
    }
  }
};

template<class G>
void run_group(FILE * f, Rng & r, int n)
{
  Emit<G> e{Gen<G>::name(), f, r};
  e.run(n);
}

template<class G, int NV>
void run_action(FILE * f, Rng & r, int n)
{
  using S = typename G::Scalar;
  Emit<G> e{Gen<G>::name(), f, r};
  for (int i = 0; i < n; ++i) {
    const G g = e.elem(i);
    Eigen::Matrix<S, NV, 1> v;
    for (int k = 0; k < NV; ++k) v(k) = S(gen_trans(r, i));
    for (const char * op : {"act", "dr_action", "act_cmap", "dr_action_cmap"}) {
      if (i % 3 != 0 && std::string(op).find("_cmap") != std::string::npos) continue;
      std::vector<S> x, out;
      put(x, g.coeffs());
      put(x, v);
      if (eval_action<G, NV>(op, x, out)) emit<S>(f, op, e.gname, x, out, e.tag(i));
    }
  }
}

// scalar coefficient functions of detail/trig.hpp, at 0 ulp
template<class S>
void run_trig(FILE * f, Rng & r, int n)
{
  for (int i = 0; i < 4 * n; ++i) {
    const S th = S(gen_angle(r, i % N_ANGLE_STRATA, 0, sw<S>()));
    const S x2 = th * th;
    const char * t = angle_stratum_name(i % N_ANGLE_STRATA);
    Line<S>(f, "cos_2", "-").s(x2).bar().s(smooth::detail::cos_2(x2)).end(t);
    Line<S>(f, "sin_3", "-").s(x2).bar().s(smooth::detail::sin_3(x2)).end(t);
    Line<S>(f, "cos_4", "-").s(x2).bar().s(smooth::detail::cos_4(x2)).end(t);
    Line<S>(f, "sin_5", "-").s(x2).bar().s(smooth::detail::sin_5(x2)).end(t);
    Line<S>(f, "cos_6", "-").s(x2).bar().s(smooth::detail::cos_6(x2)).end(t);
  }
  // exactly at the switch and its floating-point neighbours
  const S e = S(smooth::eps2);
  for (S x2 : {e, std::nextafter(e, S(1)), std::nextafter(e, S(0)), S(0)}) {
    Line<S>(f, "cos_2", "-").s(x2).bar().s(smooth::detail::cos_2(x2)).end("switch_exact");
    Line<S>(f, "sin_3", "-").s(x2).bar().s(smooth::detail::sin_3(x2)).end("switch_exact");
    Line<S>(f, "cos_4", "-").s(x2).bar().s(smooth::detail::cos_4(x2)).end("switch_exact");
    Line<S>(f, "sin_5", "-").s(x2).bar().s(smooth::detail::sin_5(x2)).end("switch_exact");
    Line<S>(f, "cos_6", "-").s(x2).bar().s(smooth::detail::cos_6(x2)).end("switch_exact");
  }
}

template<class S>
void run_helpers(FILE * f, Rng & r, int n)
{
  using V3 = Eigen::Matrix<S, 3, 1>;
  for (int i = 0; i < n; ++i) {
    const V3 w = gen_dir3<S>(r) * S(gen_angle(r, i % N_ANGLE_STRATA, 0, sw<S>()));
    const V3 wl = gen_dir3<S>(r) * S(gen_angle(r, i % N_ANGLE_STRATA, 1, sw<S>()));
    V3 v;
    for (int k = 0; k < 3; ++k) v(k) = S(gen_trans(r, i));
    const char * t = angle_stratum_name(i % N_ANGLE_STRATA);
    Line<S>(f, "calc_S1", "SO3").v(w).bar().v(smooth::SO3Impl<S>::calc_S1(w)).end(t);
    Line<S>(f, "calc_S2", "SO3").v(w).bar().v(smooth::SO3Impl<S>::calc_S2(w)).end(t);
    Line<S>(f, "calc_S1inv", "SO3").v(wl).bar().v(smooth::SO3Impl<S>::calc_S1inv(wl)).end(t);
    Line<S>(f, "calculate_q", "SE3").v(v).v(w).bar().v(smooth::SE3Impl<S>::calculate_q(v, w)).end(t);
    Line<S>(f, "calculate_r", "GAL").v(v).v(w).bar().v(smooth::GalileiImpl<S>::calculate_r(v, w)).end(t);
  }
}

// The catalogue of instantiated types of this FAMILY, visited by generation and by eval mode.
template<class S, class V>
void catalogue(V && visit)
{
  using namespace smooth;
  using V1 = Eigen::Matrix<S, 1, 1>;
  using V2 = Eigen::Matrix<S, 2, 1>;
  using V3 = Eigen::Matrix<S, 3, 1>;
  using V4 = Eigen::Matrix<S, 4, 1>;
  (void)sizeof(V1); (void)sizeof(V2); (void)sizeof(V3); (void)sizeof(V4);
#if FAMILY == 0
  visit.template group<SO2<S>>();
  visit.template group<SO3<S>>();
  visit.template group<SE2<S>>();
  visit.template group<C1<S>>();
  visit.template action<SO2<S>, 2>();
  visit.template action<C1<S>, 2>();
  visit.template action<SO3<S>, 3>();
  visit.template action<SE2<S>, 2>();
#elif FAMILY == 1
  visit.template group<SE3<S>>();
  visit.template action<SE3<S>, 3>();
#elif FAMILY == 2
  visit.template group<Galilei<S>>();
  visit.template action<Galilei<S>, 4>();
  visit.template group<SE_K_3<S, 1>>();
  visit.template group<SE_K_3<S, 2>>();
  visit.template group<SE_K_3<S, 3>>();
#elif FAMILY == 3
  visit.template group<Bundle<SO3<S>>>();
  visit.template group<Bundle<V2, SE2<S>>>();
  visit.template group<Bundle<SE2<S>, V2>>();
  visit.template group<Bundle<SO2<S>, SO2<S>, SO2<S>>>();
  visit.template group<Bundle<V1, V3>>();
  visit.template group<Bundle<C1<S>, V1, SO3<S>, SO2<S>>>();
#elif FAMILY == 4
  visit.template group<Bundle<SE3<S>, V3, SO3<S>>>();
  visit.template group<Bundle<Bundle<SO3<S>, V3>, SE2<S>>>();
  visit.template group<Bundle<V2, Bundle<SO2<S>, Bundle<SE3<S>, V1>>>>();
#elif FAMILY == 5
  visit.template group<Bundle<Galilei<S>, V4>>();
  visit.template group<Bundle<SE_K_3<S, 2>, SO3<S>>>();
#endif
}

template<class S>
struct GenVisitor
{
  FILE * f;
  Rng & r;
  int n;
  template<class G>
  void group()
  {
    run_group<G>(f, r, n);
  }
  template<class G, int NV>
  void action()
  {
    run_action<G, NV>(f, r, n);
  }
};

inline bool is_action_op(const std::string & op)
{
  return op == "act" || op == "dr_action" || op == "act_cmap" || op == "dr_action_cmap";
}

template<class S>
struct EvalVisitor
{
  const std::string & op;
  const std::string & grp;
  const std::vector<S> & x;
  std::vector<S> & out;
  bool done = false;
  template<class G>
  void group()
  {
    if (!done && !is_action_op(op) && Gen<G>::name() == grp) {
      out.clear();
      done = eval_group<G>(op, x, out);
    }
  }
  template<class G, int NV>
  void action()
  {
    if (!done && is_action_op(op) && Gen<G>::name() == grp) {
      out.clear();
      done = eval_action<G, NV>(op, x, out);
    }
  }
};

template<class S>
bool eval_helper(const std::string & op, const std::string & grp, const std::vector<S> & x, std::vector<S> & out)
{
#if FAMILY == 0
  using V3 = Eigen::Matrix<S, 3, 1>;
  Args<S> A{x};
  if (grp == "-" && x.size() == 1) {
    if (op == "cos_2") out.push_back(smooth::detail::cos_2(x[0]));
    else if (op == "sin_3") out.push_back(smooth::detail::sin_3(x[0]));
    else if (op == "cos_4") out.push_back(smooth::detail::cos_4(x[0]));
    else if (op == "sin_5") out.push_back(smooth::detail::sin_5(x[0]));
    else if (op == "cos_6") out.push_back(smooth::detail::cos_6(x[0]));
    else return false;
    return true;
  }
  if (op == "calc_S1" && grp == "SO3") { put(out, smooth::SO3Impl<S>::calc_S1(A.template vec<V3>())); return A.done(); }
  if (op == "calc_S2" && grp == "SO3") { put(out, smooth::SO3Impl<S>::calc_S2(A.template vec<V3>())); return A.done(); }
  if (op == "calc_S1inv" && grp == "SO3") { put(out, smooth::SO3Impl<S>::calc_S1inv(A.template vec<V3>())); return A.done(); }
  if (op == "calculate_q" && grp == "SE3") {
    const V3 v = A.template vec<V3>(), w = A.template vec<V3>();
    put(out, smooth::SE3Impl<S>::calculate_q(v, w));
    return A.done();
  }
  if (op == "calculate_r" && grp == "GAL") {
    const V3 v = A.template vec<V3>(), w = A.template vec<V3>();
    put(out, smooth::GalileiImpl<S>::calculate_r(v, w));
    return A.done();
  }
#else
  (void)op; (void)grp; (void)x; (void)out;
#endif
  return false;
}

template<class S>
void family(FILE * f, Rng & r, int n)
{
#if FAMILY == 0
  run_trig<S>(f, r, n);
  run_helpers<S>(f, r, n);
#endif
  catalogue<S>(GenVisitor<S>{f, r, n});
}

// eval mode: request lines on stdin (`op grp prec hex…`, anything after " |" ignored) are
// evaluated by the implementation; lines whose group/op this binary does not serve are echoed
// with the reply `SKIP`.
template<class S>
S parse_word(const std::string & w)
{
  if constexpr (std::is_same_v<S, double>) {
    uint64_t u = std::strtoull(w.c_str(), nullptr, 16);
    double d;
    std::memcpy(&d, &u, 8);
    return d;
  } else {
    uint32_t u = uint32_t(std::strtoul(w.c_str(), nullptr, 16));
    float d;
    std::memcpy(&d, &u, 4);
    return d;
  }
}

template<class S>
void eval_line(const std::string & op, const std::string & grp, const std::vector<std::string> & words, const std::string & tag)
{
  std::vector<S> x, out;
  for (auto & w : words) x.push_back(parse_word<S>(w));
  bool ok = eval_helper<S>(op, grp, x, out);
  if (!ok) {
    EvalVisitor<S> v{op, grp, x, out};
    catalogue<S>(v);
    ok = v.done;
  }
  if (ok) emit<S>(stdout, op.c_str(), grp, x, out, tag.empty() ? nullptr : tag.c_str());
  else std::printf("SKIP %s %s\n", op.c_str(), grp.c_str());
}

int eval_mode()
{
  char * line = nullptr;
  size_t cap  = 0;
  while (getline(&line, &cap, stdin) > 0) {
    std::string s(line);
    while (!s.empty() && (s.back() == '\n' || s.back() == '\r')) s.pop_back();
    std::string tag;
    auto h = s.find(" # ");
    if (h != std::string::npos) { tag = s.substr(h + 3); s = s.substr(0, h); }
    auto bar = s.find(" |");
    if (bar != std::string::npos) s = s.substr(0, bar);
    std::vector<std::string> t;
    size_t p = 0;
    while (p < s.size()) {
      while (p < s.size() && s[p] == ' ') ++p;
      size_t q = p;
      while (q < s.size() && s[q] != ' ') ++q;
      if (q > p) t.push_back(s.substr(p, q - p));
      p = q;
    }
    if (t.size() < 3) { std::printf("SKIP bad-line\n"); continue; }
    std::vector<std::string> words(t.begin() + 3, t.end());
    if (t[2] == "f64") eval_line<double>(t[0], t[1], words, tag);
    else if (t[2] == "f32") eval_line<float>(t[0], t[1], words, tag);
    else std::printf("SKIP bad-prec\n");
  }
  std::free(line);
  return 0;
}

int main(int argc, char ** argv)
{
  if (argc > 1 && std::string(argv[1]) == "eval") return eval_mode();
  const int n = argc > 1 ? std::atoi(argv[1]) : 30;
  Rng r(seed_from_env() * 1000 + FAMILY);
  family<double>(stdout, r, n);
  family<float>(stdout, r, n);
  return 0;
}
