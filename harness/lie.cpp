// lie.cpp — correspondence harness for the Lie-group layer (C01–C06, C15 partly, C17 partly).
// Includes /repo/include directly and calls the real code in-process.  Emits one protocol line
// per evaluated operation:  op group prec <inputs> | <implementation outputs> # stratum
//
// Build:  g++ -std=c++20 -O1 -I/repo/include -I<gen> -I/usr/include/eigen3 -DFAMILY=<n> lie.cpp
// Run:    ./lie <samples-per-op>      (VERIF_SEED from the environment)
#include <smooth/bundle.hpp>
#include <smooth/c1.hpp>
#include <smooth/derivatives.hpp>
#include <smooth/galilei.hpp>
#include <smooth/se2.hpp>
#include <smooth/se3.hpp>
#include <smooth/se_k_3.hpp>
#include <smooth/so2.hpp>
#include <smooth/so3.hpp>

#include "common.hpp"

using namespace vh;

#ifndef FAMILY
#define FAMILY 0
#endif

// ------------------------------------------------------------------ tangent generators
template<class G>
struct Gen;  // Gen<G>::tangent(rng, angle_stratum, kind, trans_stratum), Gen<G>::name()

template<class S>
S sw()
{
  return std::sqrt(S(smooth::eps2));
}

template<class S>
struct Gen<smooth::SO2<S>>
{
  using G = smooth::SO2<S>;
  static std::string name() { return "SO2"; }
  static typename G::Tangent tangent(Rng & r, int as, int kind, int)
  {
    typename G::Tangent a;
    a(0) = S(r.sign() * gen_angle(r, as, kind, sw<S>()));
    return a;
  }
};
template<class S>
struct Gen<smooth::C1<S>>
{
  using G = smooth::C1<S>;
  static std::string name() { return "C1"; }
  static typename G::Tangent tangent(Rng & r, int as, int kind, int)
  {
    typename G::Tangent a;
    a(0) = S(r.uni(-3, 3));
    a(1) = S(r.sign() * gen_angle(r, as, kind, sw<S>()));
    return a;
  }
};
template<class S>
struct Gen<smooth::SO3<S>>
{
  using G = smooth::SO3<S>;
  static std::string name() { return "SO3"; }
  static typename G::Tangent tangent(Rng & r, int as, int kind, int)
  {
    return gen_dir3<S>(r) * S(gen_angle(r, as, kind, sw<S>()));
  }
};
template<class S>
struct Gen<smooth::SE2<S>>
{
  using G = smooth::SE2<S>;
  static std::string name() { return "SE2"; }
  static typename G::Tangent tangent(Rng & r, int as, int kind, int ts)
  {
    typename G::Tangent a;
    a(0) = S(gen_trans(r, ts));
    a(1) = S(gen_trans(r, ts));
    a(2) = S(r.sign() * gen_angle(r, as, kind, sw<S>()));
    return a;
  }
};
template<class S>
struct Gen<smooth::SE3<S>>
{
  using G = smooth::SE3<S>;
  static std::string name() { return "SE3"; }
  static typename G::Tangent tangent(Rng & r, int as, int kind, int ts)
  {
    typename G::Tangent a;
    for (int i = 0; i < 3; ++i) a(i) = S(gen_trans(r, ts));
    a.template tail<3>() = gen_dir3<S>(r) * S(gen_angle(r, as, kind, sw<S>()));
    return a;
  }
};
template<class S>
struct Gen<smooth::Galilei<S>>
{
  using G = smooth::Galilei<S>;
  static std::string name() { return "GAL"; }
  static typename G::Tangent tangent(Rng & r, int as, int kind, int ts)
  {
    typename G::Tangent a;
    for (int i = 0; i < 6; ++i) a(i) = S(gen_trans(r, ts));
    a(6) = S(r.below(4) == 0 ? 0.0 : r.uni(-10, 10));
    a.template tail<3>() = gen_dir3<S>(r) * S(gen_angle(r, as, kind, sw<S>()));
    return a;
  }
};
template<class S, int K>
struct Gen<smooth::SE_K_3<S, K>>
{
  using G = smooth::SE_K_3<S, K>;
  static std::string name() { return "SEK" + std::to_string(K); }
  static typename G::Tangent tangent(Rng & r, int as, int kind, int ts)
  {
    typename G::Tangent a;
    for (int i = 0; i < 3 * K; ++i) a(i) = S(gen_trans(r, ts));
    a.template tail<3>() = gen_dir3<S>(r) * S(gen_angle(r, as, kind, sw<S>()));
    return a;
  }
};
template<class S, int N>
struct Gen<Eigen::Matrix<S, N, 1>>
{
  using G = Eigen::Matrix<S, N, 1>;
  static std::string name() { return "T" + std::to_string(N); }
  static G tangent(Rng & r, int, int, int ts)
  {
    G a;
    for (int i = 0; i < N; ++i) a(i) = S(gen_trans(r, ts));
    return a;
  }
};
template<class... Gs>
struct Gen<smooth::Bundle<Gs...>>
{
  using G = smooth::Bundle<Gs...>;
  static std::string name()
  {
    std::string s = "B[";
    bool first    = true;
    ((s += (first ? "" : ",") + Gen<Gs>::name(), first = false), ...);
    return s + "]";
  }
  static typename G::Tangent tangent(Rng & r, int as, int kind, int ts)
  {
    typename G::Tangent a;
    int off = 0;
    (
      [&] {
        // vary the strata between parts so that not all parts sit in the same branch
        const int as_i = (as + r.below(2) * r.below(N_ANGLE_STRATA)) % N_ANGLE_STRATA;
        auto ai        = Gen<Gs>::tangent(r, as_i, kind, ts + r.below(2));
        a.segment(off, ai.size()) = ai;
        off += int(ai.size());
      }(),
      ...);
    return a;
  }
};

// d2r_exp / d2r_expinv are not implemented for Galilei and SE_K_3 (their LieGroupBase members do
// not compile), hence not for Bundles containing them
template<class G>
struct HasHess : std::true_type
{};
template<class S>
struct HasHess<smooth::Galilei<S>> : std::false_type
{};
template<class S, int K>
struct HasHess<smooth::SE_K_3<S, K>> : std::false_type
{};
template<class... Gs>
struct HasHess<smooth::Bundle<Gs...>> : std::bool_constant<(HasHess<Gs>::value && ...)>
{};

// LieGroup-style uniform access for Eigen vectors (they have no member API)
template<class G>
constexpr bool is_eigen_v = std::is_base_of_v<Eigen::MatrixBase<G>, G>;

// ------------------------------------------------------------------ per-group emission
template<class G>
struct Emit
{
  using S       = typename smooth::liebase_info<G>::Scalar;
  using Tangent = typename G::Tangent;
  std::string gname;
  FILE * f;
  Rng & r;

  Tangent tan(int i, int kind) { return Gen<G>::tangent(r, i % N_ANGLE_STRATA, kind, (i / N_ANGLE_STRATA) + r.below(5)); }
  const char * tag(int i) { return angle_stratum_name(i % N_ANGLE_STRATA); }

  // group elements: exp of a stratified tangent, sometimes composed (so that products with
  // negative real part before canonicalisation occur), plus hand-made special elements
  G elem(int i)
  {
    G g = G::exp(tan(i, 0));
    if (i % 7 == 3) g = g * G::exp(tan(i + 1, 0));
    if (i % 11 == 5) g = g.inverse();
    return g;
  }

  void run(int n)
  {
    // identity
    {
      Line<S> L(f, "identity", gname);
      L.bar().v(G::Identity().coeffs()).end();
    }
    for (int i = 0; i < n; ++i) {
      const G g1 = elem(i), g2 = elem(n + 3 * i + 1);
      const Tangent a = tan(i, 0), al = tan(i, 1), b = tan(i + 5, 0), c = tan(i + 2, 0);
      Line<S>(f, "matrix", gname).v(g1.coeffs()).bar().v(g1.matrix()).end(tag(i));
      Line<S>(f, "compose", gname).v(g1.coeffs()).v(g2.coeffs()).bar().v((g1 * g2).coeffs()).end(tag(i));
      Line<S>(f, "inverse", gname).v(g1.coeffs()).bar().v(g1.inverse().coeffs()).end(tag(i));
      {
        const G gl = G::exp(al);
        Line<S>(f, "log", gname).v(gl.coeffs()).bar().v(gl.log()).end(tag(i));
        const G gp = gl * G::exp(tan(i + 3, 1) * S(0.3));
        Line<S>(f, "log", gname).v(gp.coeffs()).bar().v(gp.log()).end("product");
      }
      Line<S>(f, "exp", gname).v(a).bar().v(G::exp(a).coeffs()).end(tag(i));
      Line<S>(f, "hat", gname).v(a).bar().v(G::hat(a)).end(tag(i));
      {
        const typename G::Matrix A = G::hat(a);
        Line<S>(f, "vee", gname).v(A).bar().v(G::vee(A)).end(tag(i));
      }
      Line<S>(f, "Ad", gname).v(g1.coeffs()).bar().v(g1.Ad()).end(tag(i));
      Line<S>(f, "ad", gname).v(a).bar().v(G::ad(a)).end(tag(i));
      Line<S>(f, "bracket", gname).v(a).v(b).bar().v(G::lie_bracket(a, b)).end(tag(i));
      Line<S>(f, "dr_exp", gname).v(a).bar().v(G::dr_exp(a)).end(tag(i));
      Line<S>(f, "dl_exp", gname).v(a).bar().v(G::dl_exp(a)).end(tag(i));
      Line<S>(f, "dr_expinv", gname).v(al).bar().v(G::dr_expinv(al)).end(tag(i));
      Line<S>(f, "dl_expinv", gname).v(al).bar().v(G::dl_expinv(al)).end(tag(i));
      Line<S>(f, "rplus", gname).v(g1.coeffs()).v(c).bar().v((g1 + c).coeffs()).end(tag(i));
      {
        const G gm = g1 * G::exp(al);
        Line<S>(f, "rminus", gname).v(gm.coeffs()).v(g1.coeffs()).bar().v(gm - g1).end(tag(i));
      }
      Line<S>(f, "dr_rminus", gname).v(al).bar().v(smooth::dr_rminus<G>(al)).end(tag(i));
      Line<S>(f, "dr_rminus_sqn", gname).v(al).bar().v(smooth::dr_rminus_squarednorm<G>(al)).end(tag(i));
      if constexpr (HasHess<G>::value) {
        Line<S>(f, "d2r_exp", gname).v(a).bar().v(G::d2r_exp(a)).end(tag(i));
        Line<S>(f, "d2l_exp", gname).v(a).bar().v(G::d2l_exp(a)).end(tag(i));
        Line<S>(f, "d2r_expinv", gname).v(al).bar().v(G::d2r_expinv(al)).end(tag(i));
        Line<S>(f, "d2l_expinv", gname).v(al).bar().v(G::d2l_expinv(al)).end(tag(i));
        Line<S>(f, "d2r_rminus", gname).v(al).bar().v(smooth::d2r_rminus<G>(al)).end(tag(i));
        Line<S>(f, "d2r_rminus_sqn", gname).v(al).bar().v(smooth::d2r_rminus_squarednorm<G>(al)).end(tag(i));
      }
    }
  }
};

// Hessians exist only where every non-commutative Impl provides d2r_exp: probe by concept
template<class G>
void run_group(FILE * f, Rng & r, int n)
{
  Emit<G> e{Gen<G>::name(), f, r};
  e.run(n);
}

// group actions and dr_action (public classes)
template<class G, int NV>
void run_action(FILE * f, Rng & r, int n)
{
  using S = typename G::Scalar;
  Emit<G> e{Gen<G>::name(), f, r};
  for (int i = 0; i < n; ++i) {
    const G g = e.elem(i);
    Eigen::Matrix<S, NV, 1> v;
    for (int k = 0; k < NV; ++k) v(k) = S(gen_trans(r, i));
    Line<S>(f, "act", e.gname).v(g.coeffs()).v(v).bar().v(g * v).end(e.tag(i));
    if constexpr (requires { g.dr_action(v); }) {
      if constexpr (!std::is_same_v<G, smooth::SO2<S>> && !std::is_same_v<G, smooth::SE2<S>>) {
        Line<S>(f, "dr_action", e.gname).v(g.coeffs()).v(v).bar().v(g.dr_action(v)).end(e.tag(i));
      }
    }
  }
}

// scalar coefficient functions of detail/trig.hpp, at 0 ulp
template<class S>
void run_trig(FILE * f, Rng & r, int n)
{
  for (int i = 0; i < 4 * n; ++i) {
    const S th = S(gen_angle(r, i % N_ANGLE_STRATA, 0, sw<S>()));
    const S x2 = th * th;
    const char * t = angle_stratum_name(i % N_ANGLE_STRATA);
    Line<S>(f, "cos_2", "-").s(x2).bar().s(smooth::detail::cos_2(x2)).end(t);
    Line<S>(f, "sin_3", "-").s(x2).bar().s(smooth::detail::sin_3(x2)).end(t);
    Line<S>(f, "cos_4", "-").s(x2).bar().s(smooth::detail::cos_4(x2)).end(t);
    Line<S>(f, "sin_5", "-").s(x2).bar().s(smooth::detail::sin_5(x2)).end(t);
    Line<S>(f, "cos_6", "-").s(x2).bar().s(smooth::detail::cos_6(x2)).end(t);
  }
  // exactly at the switch and its floating-point neighbours
  const S e = S(smooth::eps2);
  for (S x2 : {e, std::nextafter(e, S(1)), std::nextafter(e, S(0)), S(0)}) {
    Line<S>(f, "cos_2", "-").s(x2).bar().s(smooth::detail::cos_2(x2)).end("switch_exact");
    Line<S>(f, "sin_3", "-").s(x2).bar().s(smooth::detail::sin_3(x2)).end("switch_exact");
    Line<S>(f, "cos_4", "-").s(x2).bar().s(smooth::detail::cos_4(x2)).end("switch_exact");
    Line<S>(f, "sin_5", "-").s(x2).bar().s(smooth::detail::sin_5(x2)).end("switch_exact");
    Line<S>(f, "cos_6", "-").s(x2).bar().s(smooth::detail::cos_6(x2)).end("switch_exact");
  }
}

template<class S>
void run_helpers(FILE * f, Rng & r, int n)
{
  using V3 = Eigen::Matrix<S, 3, 1>;
  for (int i = 0; i < n; ++i) {
    const V3 w = gen_dir3<S>(r) * S(gen_angle(r, i % N_ANGLE_STRATA, 0, sw<S>()));
    const V3 wl = gen_dir3<S>(r) * S(gen_angle(r, i % N_ANGLE_STRATA, 1, sw<S>()));
    V3 v;
    for (int k = 0; k < 3; ++k) v(k) = S(gen_trans(r, i));
    const char * t = angle_stratum_name(i % N_ANGLE_STRATA);
    Line<S>(f, "calc_S1", "SO3").v(w).bar().v(smooth::SO3Impl<S>::calc_S1(w)).end(t);
    Line<S>(f, "calc_S2", "SO3").v(w).bar().v(smooth::SO3Impl<S>::calc_S2(w)).end(t);
    Line<S>(f, "calc_S1inv", "SO3").v(wl).bar().v(smooth::SO3Impl<S>::calc_S1inv(wl)).end(t);
    Line<S>(f, "calculate_q", "SE3").v(v).v(w).bar().v(smooth::SE3Impl<S>::calculate_q(v, w)).end(t);
    Line<S>(f, "calculate_r", "GAL").v(v).v(w).bar().v(smooth::GalileiImpl<S>::calculate_r(v, w)).end(t);
  }
}

template<class S>
void family(FILE * f, Rng & r, int n)
{
  using namespace smooth;
  using V1 = Eigen::Matrix<S, 1, 1>;
  using V2 = Eigen::Matrix<S, 2, 1>;
  using V3 = Eigen::Matrix<S, 3, 1>;
  using V4 = Eigen::Matrix<S, 4, 1>;
#if FAMILY == 0
  run_trig<S>(f, r, n);
  run_helpers<S>(f, r, n);
  run_group<SO2<S>>(f, r, n);
  run_group<SO3<S>>(f, r, n);
  run_group<SE2<S>>(f, r, n);
  run_group<C1<S>>(f, r, n);
  run_action<SO2<S>, 2>(f, r, n);
  run_action<C1<S>, 2>(f, r, n);
  run_action<SO3<S>, 3>(f, r, n);
  run_action<SE2<S>, 2>(f, r, n);
#elif FAMILY == 1
  run_group<SE3<S>>(f, r, n);
  run_action<SE3<S>, 3>(f, r, n);
#elif FAMILY == 2
  run_group<Galilei<S>>(f, r, n);
  run_action<Galilei<S>, 4>(f, r, n);
  run_group<SE_K_3<S, 1>>(f, r, n);
  run_group<SE_K_3<S, 2>>(f, r, n);
  run_group<SE_K_3<S, 3>>(f, r, n);
#elif FAMILY == 3
  run_group<Bundle<SO3<S>>>(f, r, n);
  run_group<Bundle<V2, SE2<S>>>(f, r, n);
  run_group<Bundle<SE2<S>, V2>>(f, r, n);
  run_group<Bundle<SO2<S>, SO2<S>, SO2<S>>>(f, r, n);
  run_group<Bundle<V1, V3>>(f, r, n);
  run_group<Bundle<C1<S>, V1, SO3<S>, SO2<S>>>(f, r, n);
#elif FAMILY == 4
  run_group<Bundle<SE3<S>, V3, SO3<S>>>(f, r, n);
  run_group<Bundle<Bundle<SO3<S>, V3>, SE2<S>>>(f, r, n);
  run_group<Bundle<V2, Bundle<SO2<S>, Bundle<SE3<S>, V1>>>>(f, r, n);
#elif FAMILY == 5
  run_group<Bundle<Galilei<S>, V4>>(f, r, n);
  run_group<Bundle<SE_K_3<S, 2>, SO3<S>>>(f, r, n);
  (void)sizeof(V4);
#endif
  (void)sizeof(V1);
  (void)sizeof(V2);
  (void)sizeof(V3);
  (void)sizeof(V4);
}

int main(int argc, char ** argv)
{
  const int n = argc > 1 ? std::atoi(argv[1]) : 30;
  Rng r(seed_from_env() * 1000 + FAMILY);
  family<double>(stdout, r, n);
  family<float>(stdout, r, n);
  return 0;
}
