// optim.cpp — harness for C09 (smooth::minimize) and C10 (solve_linear_ldlt / solve_trust_region /
// colwise_norm).  Includes /repo/include directly and calls the real code in-process; /repo is not
// modified: every observation goes through public hooks (the callback, a TrustRegionStrategy
// subclass that wraps the real strategy object and is passed through MinimizeOptions::strat, and a
// residual-function wrapper that records its evaluations).
//
// Build:  g++ -std=c++20 -O0 -I/repo/include … -DPART=<0..3> optim.cpp
//   PART 0          C10: sampled (J, d, r, Delta, lambda) -> `opt_tr` lines
//   PART 1 … 8      C09: generated problem families -> per run one `RUN {json}` line, one
//                   `opt_replay` line (per-iteration observables for the Lean state machine) and
//                   a few `opt_tr` lines with the (J, d, r, Delta) of actual solver calls.
// Run:    ./optim gen <count>                 VERIF_SEED from the environment
//         ./optim run <family> <index>        re-run exactly one problem (id + seed) [PART>0]
//         ./optim eval < request-lines        re-evaluate `opt_tr` requests with the implementation [PART 0]
//
// opt_tr line:   opt_tr <kind> f64a  m n J(row-major) d r Delta lambda |
//                  dxT_d(n) lamT_d dxT_s(n) lamT_s dxL_d(n) dphi_d dxL_s(n) dphi_s cn_d(n) cn_s(n) cn_r(n)
//   (T = solve_trust_region(J,d,r,Delta); L = solve_linear_ldlt(J,d,r,lambda,dphi); _d dense, _s sparse
//    column-major with the same non-zero entries; cn = colwise_norm dense / sparse col-major / sparse row-major)
#include <Eigen/Dense>
#include <smooth/optim.hpp>

#include <functional>
#include <sstream>
#include <tuple>

#include "common.hpp"

#ifndef PART
#define PART 0
#endif

using namespace vh;
using Eigen::MatrixXd;
using Eigen::VectorXd;
using SpMat  = Eigen::SparseMatrix<double>;
using SpMatR = Eigen::SparseMatrix<double, Eigen::RowMajor>;

static std::string hexd(double x)
{
  uint64_t u;
  std::memcpy(&u, &x, 8);
  char buf[24];
  std::snprintf(buf, sizeof buf, "%016llx", static_cast<unsigned long long>(u));
  return buf;
}
static double unhex(const std::string & s)
{
  uint64_t u = std::strtoull(s.c_str(), nullptr, 16);
  double x;
  std::memcpy(&x, &u, 8);
  return x;
}
static bool same_bits(double a, double b)
{
  if (std::isnan(a) && std::isnan(b)) return true;
  uint64_t u, v;
  std::memcpy(&u, &a, 8);
  std::memcpy(&v, &b, 8);
  return u == v;
}
template<class D>
static void put_vec(std::ostream & o, const Eigen::MatrixBase<D> & m)
{
  for (Eigen::Index i = 0; i < m.rows(); ++i)
    for (Eigen::Index j = 0; j < m.cols(); ++j) o << ' ' << hexd(m(i, j));
}

template<class Sp>
static Sp to_sparse(const MatrixXd & J)
{
  std::vector<Eigen::Triplet<double>> t;
  for (Eigen::Index i = 0; i < J.rows(); ++i)
    for (Eigen::Index j = 0; j < J.cols(); ++j)
      if (J(i, j) != 0) t.emplace_back(i, j, J(i, j));
  Sp S(J.rows(), J.cols());
  S.setFromTriplets(t.begin(), t.end());
  S.makeCompressed();
  return S;
}

// one opt_tr line: every output is produced by the implementation
static void emit_tr(
  FILE * out, const char * kind, const MatrixXd & J, const VectorXd & d, const VectorXd & r, double Delta, double lambda,
  const std::string & tag)
{
  const auto n = J.cols();
  std::ostringstream o;
  o << "opt_tr " << kind << " f64a " << hexd(double(J.rows())) << ' ' << hexd(double(n));
  put_vec(o, J);
  put_vec(o, d);
  put_vec(o, r);
  o << ' ' << hexd(Delta) << ' ' << hexd(lambda) << " |";
  const SpMat Js  = to_sparse<SpMat>(J);
  const SpMatR Jr = to_sparse<SpMatR>(J);
  {
    const auto [dx, lam] = smooth::solve_trust_region(J, d, r, Delta);
    put_vec(o, dx);
    o << ' ' << hexd(lam);
  }
  {
    const auto [dx, lam] = smooth::solve_trust_region(Js, d, r, Delta);
    put_vec(o, dx);
    o << ' ' << hexd(lam);
  }
  {
    double dphi       = std::nan("");
    const VectorXd dx = smooth::solve_linear_ldlt(J, d, r, lambda, dphi);
    put_vec(o, dx);
    o << ' ' << hexd(dphi);
  }
  {
    double dphi       = std::nan("");
    const VectorXd dx = smooth::solve_linear_ldlt(Js, d, r, lambda, dphi);
    put_vec(o, dx);
    o << ' ' << hexd(dphi);
  }
  {
    const VectorXd c1 = smooth::colwise_norm(J);
    const VectorXd c2 = smooth::colwise_norm(Js);
    const VectorXd c3 = smooth::colwise_norm(Jr);
    put_vec(o, c1);
    put_vec(o, c2);
    put_vec(o, c3);
  }
  std::fprintf(out, "%s # %s\n", o.str().c_str(), tag.c_str());
}

#if PART == 0
// ================================================================================== C10
static double dyad(Rng & r, int bits, double scale)
{
  // random dyadic rational with `bits` fractional bits in (-scale, scale)
  const double q = std::ldexp(1.0, bits);
  return std::round(r.uni(-scale, scale) * q) / q;
}

static const char * JKIND[] = {"full", "rankdef", "zerocol", "dupcol", "wide", "illscaled", "sparse", "tiny", "dyadic", "zeroJ", "small_units"};
constexpr int NJK           = 11;
static const char * RKIND[] = {"rand", "zero", "consistent", "big", "tinyr", "near_orth"};
constexpr int NRK           = 6;
static const char * DKIND[] = {"colnorm_clamped", "loguni", "ones"};
constexpr int NDK           = 3;

static void gen_tr(FILE * out, Rng & rng, int idx)
{
  const int jk = idx % NJK;
  const int rk = rng.below(NRK);
  const int dk = rng.below(NDK);
  // sizes: mostly small, some up to 40
  auto size = [&]() {
    int c = rng.below(10);
    if (c < 6) return 1 + rng.below(8);
    if (c < 9) return 1 + rng.below(20);
    return 1 + rng.below(40);
  };
  int m = size(), n = size();
  if (jk == 4 && m >= n) std::swap(m, n), n += (m == n);
  if (jk == 7) m = 1 + rng.below(2), n = 1 + rng.below(2);
  if (n > 40) n = 40;
  MatrixXd J(m, n);
  for (int i = 0; i < m; ++i)
    for (int j = 0; j < n; ++j) J(i, j) = rng.normal();
  switch (jk) {
  case 1: {  // rank deficient: product of thin factors
    const int k = std::max(1, std::min(m, n) / 2);
    MatrixXd A(m, k), B(k, n);
    for (int i = 0; i < m; ++i)
      for (int j = 0; j < k; ++j) A(i, j) = rng.normal();
    for (int i = 0; i < k; ++i)
      for (int j = 0; j < n; ++j) B(i, j) = rng.normal();
    J = A * B;
    break;
  }
  case 2:  // zero columns
    for (int j = 0; j < n; ++j)
      if (rng.below(3) == 0 || j == 0) J.col(j).setZero();
    break;
  case 3:  // duplicated columns (exactly rank deficient)
    for (int j = 1; j < n; ++j)
      if (rng.below(2) == 0) J.col(j) = J.col(rng.below(j));
    break;
  case 5:  // badly scaled columns
    for (int j = 0; j < n; ++j) J.col(j) *= rng.logu(1e-6, 1e6);
    break;
  case 6:  // sparse pattern
    for (int i = 0; i < m; ++i)
      for (int j = 0; j < n; ++j)
        if (rng.below(10) >= 3) J(i, j) = 0;
    break;
  case 8:  // small dyadic entries (exact arithmetic stays small)
    for (int i = 0; i < m; ++i)
      for (int j = 0; j < n; ++j) J(i, j) = dyad(rng, 4, 4.0);
    break;
  case 9: J.setZero(); break;
  case 10:  // Jacobian in small units / small weights: every entry of J'J is far below 1 (1e-18..1e-10)
    J *= rng.logu(1e-9, 1e-5);
    break;
  default: break;
  }
  VectorXd r(m);
  for (int i = 0; i < m; ++i) r(i) = rng.normal();
  switch (rk) {
  case 1: r.setZero(); break;
  case 2: {
    VectorXd x0(n);
    for (int j = 0; j < n; ++j) x0(j) = rng.normal();
    r = -(J * x0);
    break;
  }
  case 3: r *= rng.logu(1e3, 1e8); break;
  case 4: r *= rng.logu(1e-12, 1e-6); break;
  case 5: {  // r nearly orthogonal to range(J): the situation near convergence of a non-zero-residual problem
    const VectorXd c = J.completeOrthogonalDecomposition().solve(r);
    r -= J * c;
    VectorXd w(n);
    for (int j = 0; j < n; ++j) w(j) = rng.normal();
    r += rng.logu(1e-14, 1e-3) * (J * w);
    break;
  }
  default: break;
  }
  VectorXd d(n);
  if (dk == 0) {
    d = smooth::colwise_norm(J).unaryExpr([](double el) { return std::clamp(el, 1e-6, 1e32); });
  } else if (dk == 1) {
    for (int j = 0; j < n; ++j) d(j) = rng.logu(1e-3, 1e3);
  } else {
    d.setOnes();
  }
  const double Delta  = rng.logu(1e-6, 1e6);
  double lambda       = rng.below(4) == 0 ? 1. / Delta : rng.logu(1e-6, 1e6);
  if (jk == 10 && rng.below(2)) {
    // regularisation of the same order as J'J so that neither term of H = J'J + lambda D^2 is negligible
    const double h = (J.transpose() * J).diagonal().maxCoeff(), dd = d.cwiseAbs2().maxCoeff();
    if (h > 0 && dd > 0) lambda = rng.logu(1e-2, 1e2) * h / dd;
  }
  std::string tag = std::string("J=") + JKIND[jk] + ",r=" + RKIND[rk] + ",d=" + DKIND[dk] + ",m=" + std::to_string(m)
                  + ",n=" + std::to_string(n);
  emit_tr(out, JKIND[jk], J, d, r, Delta, lambda, tag);
}

static int eval_mode()
{
  // request: opt_tr kind f64a m n J d r Delta lambda   (anything after " |" is ignored)
  char * line = nullptr;
  size_t cap  = 0;
  while (getline(&line, &cap, stdin) > 0) {
    std::string s(line);
    auto bar = s.find(" |");
    if (bar != std::string::npos) s = s.substr(0, bar);
    std::istringstream is(s);
    std::string op, kind, prec;
    is >> op >> kind >> prec;
    if (op != "opt_tr") {
      std::printf("SKIP\n");
      continue;
    }
    std::vector<double> w;
    std::string t;
    while (is >> t) w.push_back(unhex(t));
    if (w.size() < 2) {
      std::printf("SKIP\n");
      continue;
    }
    const int m = int(w[0]), n = int(w[1]);
    if (int(w.size()) != 2 + m * n + n + m + 2) {
      std::printf("SKIP\n");
      continue;
    }
    MatrixXd J(m, n);
    VectorXd d(n), r(m);
    size_t k = 2;
    for (int i = 0; i < m; ++i)
      for (int j = 0; j < n; ++j) J(i, j) = w[k++];
    for (int j = 0; j < n; ++j) d(j) = w[k++];
    for (int i = 0; i < m; ++i) r(i) = w[k++];
    const double Delta = w[k++], lambda = w[k++];
    emit_tr(stdout, kind.c_str(), J, d, r, Delta, lambda, "eval");
  }
  free(line);
  return 0;
}

int main(int argc, char ** argv)
{
  if (argc > 1 && std::string(argv[1]) == "eval") return eval_mode();
  const int n = argc > 2 ? std::atoi(argv[2]) : 50;
  for (int i = 0; i < n; ++i) {
    Rng rng(seed_from_env() * 1000003ull + 7919ull * uint64_t(i) + 17);
    gen_tr(stdout, rng, i);
  }
  return 0;
}

#else
// ================================================================================== C09
#include <smooth/bundle.hpp>
#include <smooth/se2.hpp>
#include <smooth/se3.hpp>
#include <smooth/so3.hpp>

namespace diff = smooth::diff;

// ---------------------------------------------------------------- generic helpers on argument tuples
template<class T>
VectorXd flat1(const T & t)
{
  if constexpr (std::is_base_of_v<Eigen::MatrixBase<T>, T>) {
    return VectorXd(t);
  } else {
    return VectorXd(t.coeffs());
  }
}
template<class Tup>
VectorXd flat(const Tup & t)
{
  std::vector<double> v;
  std::apply(
    [&](const auto &... a) {
      (([&] {
         VectorXd f = flat1(a);
         for (Eigen::Index i = 0; i < f.size(); ++i) v.push_back(f(i));
       }()),
       ...);
    },
    t);
  return Eigen::Map<VectorXd>(v.data(), Eigen::Index(v.size()));
}
template<class Tup>
auto refs(Tup & t)
{
  return std::apply([](auto &... a) { return std::forward_as_tuple(a...); }, t);
}
static bool same_vec(const VectorXd & a, const VectorXd & b)
{
  if (a.size() != b.size()) return false;
  for (Eigen::Index i = 0; i < a.size(); ++i)
    if (!same_bits(a(i), b(i))) return false;
  return true;
}

// ---------------------------------------------------------------- strategy wrapper (public hook)
struct LogStrategy : public smooth::TrustRegionStrategy
{
  std::shared_ptr<smooth::TrustRegionStrategy> inner;
  std::function<void(double, bool, double, double)> on_step;  // rho, take_step, delta before, delta after
  mutable double last_get{std::nan("")};
  mutable long n_get{0};
  double get_delta() const override
  {
    last_get = inner->get_delta();
    ++n_get;
    return last_get;
  }
  bool step_and_update(const double rho) override
  {
    const double b = inner->get_delta();
    const bool t   = inner->step_and_update(rho);
    if (on_step) on_step(rho, t, b, inner->get_delta());
    return t;
  }
};

// ---------------------------------------------------------------- evaluation record shared by the f wrapper
template<class Args>
struct EvalLog
{
  bool have_first{false};
  Args first_args, last_args;
  VectorXd first_val, last_val;
  long nevals{0};
};

template<class F, class Args>
struct LogF;
template<class F, class... A>
struct LogF<F, std::tuple<A...>>
{
  F * f;
  EvalLog<std::tuple<A...>> * lg;
  auto operator()(const A &... a) const
  {
    auto v = (*f)(a...);
    if (!lg->have_first) {
      lg->have_first = true;
      lg->first_args = std::tuple<A...>(a...);
      lg->first_val  = v;
    }
    lg->last_args = std::tuple<A...>(a...);
    lg->last_val  = v;
    ++lg->nevals;
    return v;
  }
};
template<class F, class Args>
struct LogFJ;
template<class F, class... A>
struct LogFJ<F, std::tuple<A...>> : public LogF<F, std::tuple<A...>>
{
  auto jacobian(const A &... a) const { return this->f->jacobian(a...); }
};

struct IterRec
{
  double delta_before, rn, fxpn, linn, ddxn, nsz, rho, take, delta_after, lambda;
  long cb_before;
  bool recon_ok;
  std::string recon_why;
};

struct RunOut
{
  std::vector<IterRec> its;
  std::vector<double> cb_cost;      // ||f|| at every callback point (f evaluated by the harness)
  std::vector<double> cb_scale;     // family-supplied magnitude of the terms of f at that point
  std::vector<VectorXd> cb_args;    // flattened arguments at every callback point
  int status{-1};
  unsigned iter{0};
  VectorXd final_args;
  double dist_final{0}, dist_start{0};
  std::vector<double> cb_dist;      // distance of every callback point to the known minimiser
  long nevals{0};
  std::vector<std::string> tr_lines;
};

// the loop body of minimize re-executed by the harness on a copy of the logged arguments, with the
// library's own functions (deterministic: same bits); used to obtain the observables that minimize
// does not expose (‖r‖, ‖f(xp)‖, ‖r + J dx‖, ‖D dx‖)
template<diff::Type D, class F, class Args>
IterRec reconstruct(F & f_raw, const EvalLog<Args> & lg, double Delta, double rho_seen, FILE * trout, int * tr_budget,
  const std::string & tag)
{
  IterRec it{};
  Args xc = lg.first_args;
  auto x  = refs(xc);

  const auto [r, J] = diff::dr<1, D>(f_raw, x);
  using JType             = std::decay_t<decltype(J)>;
  static constexpr auto N = JType::ColsAtCompileTime;

  static constexpr auto clamper    = [](double el) { return std::clamp(el, 1e-6, 1e32); };
  const Eigen::Vector<double, N> d = smooth::colwise_norm(J).unaryExpr(clamper);

  const auto [dx, lambda] = smooth::solve_trust_region(J, d, r, Delta);
  const auto xp           = smooth::wrt_rplus(x, dx);

  const double r_n      = r.stableNorm();
  const double fxp_n    = std::apply(f_raw, xp).stableNorm();
  const double lin_n    = (r + J * dx).stableNorm();
  const double actu_red = 1. - smooth::fpow<2>(fxp_n / r_n);
  const double pred_red = 1. - smooth::fpow<2>(lin_n / r_n);
  const double rho      = actu_red / pred_red;

  it.rn     = r_n;
  it.fxpn   = fxp_n;
  it.linn   = lin_n;
  it.ddxn   = d.cwiseProduct(dx).stableNorm();
  it.nsz    = static_cast<double>(dx.size());
  it.lambda = lambda;
  it.recon_ok = true;
  if (!same_bits(rho, rho_seen)) {
    it.recon_ok  = false;
    it.recon_why = "rho";
  }
  if (!same_vec(flat(xp), flat(lg.last_args))) {
    it.recon_ok  = false;
    it.recon_why += "+xp";
  }
  if (!same_vec(VectorXd(r), lg.first_val)) {
    it.recon_ok  = false;
    it.recon_why += "+r";
  }
  // the actual solver call as an opt_tr line (C10 contract on in-situ inputs)
  if (trout && *tr_budget > 0 && J.rows() * J.cols() <= 200) {
    --*tr_budget;
    emit_tr(trout, "insitu", MatrixXd(J), VectorXd(d), VectorXd(r), Delta, lambda, tag);
  }
  return it;
}

struct RunCfg
{
  int strat;         // 0 Ceres, 1 Disney
  double ftol, ptol;
  std::size_t max_iter;
  int calls;         // 1, or 2 = the strategy object is shared across two consecutive calls
};

// P: problem with  Args x0;  F f;  double dist(const Args&);  double fscale(const Args&);
template<diff::Type D, bool WithJac, class P>
std::vector<RunOut> run_problem(P & prob, const RunCfg & cfg, FILE * trout, int tr_budget, const std::string & tag)
{
  using Args = typename P::Args;
  using F    = typename P::F;
  using W    = std::conditional_t<WithJac, LogFJ<F, Args>, LogF<F, Args>>;
  // what diff::Type::Default resolves to for the wrapped function (the raw f always has a jacobian)
  static constexpr diff::Type DE =
    D == diff::Type::Default ? (WithJac ? diff::Type::Analytic : diff::Type::Numerical) : D;

  std::shared_ptr<smooth::TrustRegionStrategy> real;
  if (cfg.strat == 0) {
    real = std::make_shared<smooth::CeresStrategy>();
  } else {
    real = std::make_shared<smooth::DisneyStrategy>();
  }
  auto ls   = std::make_shared<LogStrategy>();
  ls->inner = real;

  std::vector<RunOut> outs;
  Args xcur = prob.x0;
  for (int call = 0; call < cfg.calls; ++call) {
    RunOut ro;
    EvalLog<Args> lg;
    W w;
    w.f  = &prob.f;
    w.lg = &lg;
    long ncb = 0;
    if (call > 0) xcur = prob.x0;  // second call restarts from the same point with the used strategy object

    ls->on_step = [&](double rho, bool take, double db, double da) {
      const size_t kk = ro.its.size();  // the solver calls of iterations 0, 2 and 5 are also emitted as opt_tr lines
      IterRec it = reconstruct<DE>(prob.f, lg, ls->last_get, rho, (kk == 0 || kk == 2 || kk == 5) ? trout : nullptr, &tr_budget, tag);
      it.delta_before = ls->last_get;
      if (!same_bits(db, ls->last_get)) {
        it.recon_ok = false;
        it.recon_why += "+delta";
      }
      it.rho         = rho;
      it.take        = take ? 1.0 : 0.0;
      it.delta_after = da;
      it.cb_before   = ncb;
      ro.its.push_back(it);
      lg.have_first = false;
    };
    auto cb = [&](const auto &... a) {
      ++ncb;
      Args cur(a...);
      ro.cb_cost.push_back(std::apply(prob.f, cur).stableNorm());
      ro.cb_scale.push_back(prob.fscale(cur));
      ro.cb_args.push_back(flat(cur));
      ro.cb_dist.push_back(prob.dist(cur));
    };
    smooth::MinimizeOptions opts;
    opts.strat    = ls;
    opts.ftol     = cfg.ftol;
    opts.ptol     = cfg.ptol;
    opts.max_iter = cfg.max_iter;
    opts.verbose  = false;

    const auto res = smooth::minimize<D>(w, refs(xcur), cb, opts);
    ro.status      = static_cast<int>(res.status);
    ro.iter        = res.iter;
    ro.final_args  = flat(xcur);
    ro.dist_final  = prob.dist(xcur);
    ro.dist_start  = prob.dist(prob.x0);
    ro.nevals      = lg.nevals;
    ls->on_step    = nullptr;
    outs.push_back(std::move(ro));
  }
  return outs;
}

static const char * MODE_NAME[] = {"analytic", "numerical", "default_jac", "default_nojac"};

template<class P>
std::vector<RunOut> run_mode(int mode, P & prob, const RunCfg & cfg, FILE * trout, int trb, const std::string & tag)
{
  switch (mode) {
  case 0: return run_problem<diff::Type::Analytic, true>(prob, cfg, trout, trb, tag);
  case 1: return run_problem<diff::Type::Numerical, false>(prob, cfg, trout, trb, tag);
  default: return run_problem<diff::Type::Numerical, false>(prob, cfg, trout, trb, tag);
  }
}

// ---------------------------------------------------------------- output of one run
static std::string jarr(const std::vector<double> & v)
{
  std::string s = "[";
  for (size_t i = 0; i < v.size(); ++i) s += (i ? ",\"" : "\"") + hexd(v[i]) + "\"";
  return s + "]";
}
static std::string jvec(const VectorXd & v)
{
  return jarr(std::vector<double>(v.data(), v.data() + v.size()));
}

static int g_fam = 0;  // family number inside this PART (for `run <family> <index>` replays)

template<class P>
void emit_run(
  FILE * out, const std::string & family, int index, int mode, const RunCfg & cfg, P & prob, const std::vector<RunOut> & outs,
  const std::string & extra_json)
{
  // ---- RUN line (JSON, one per call)
  for (size_t c = 0; c < outs.size(); ++c) {
    const RunOut & ro = outs[c];
    std::ostringstream o;
    o << "RUN {\"part\":" << PART << ",\"fam\":" << g_fam << ",\"family\":\"" << family << "\",\"index\":" << index << ",\"seed\":" << seed_from_env() << ",\"call\":" << c
      << ",\"calls\":" << outs.size() << ",\"mode\":\"" << MODE_NAME[mode] << "\",\"strat\":\""
      << (cfg.strat == 0 ? "ceres" : "disney") << "\",\"ftol\":\"" << hexd(cfg.ftol) << "\",\"ptol\":\"" << hexd(cfg.ptol)
      << "\",\"max_iter\":" << cfg.max_iter << ",\"status\":" << ro.status << ",\"iter\":" << ro.iter
      << ",\"ncb\":" << ro.cb_cost.size() << ",\"nevals\":" << ro.nevals << ",\"wc\":" << (prob.wc ? 1 : 0)
      << ",\"cb_cost\":" << jarr(ro.cb_cost) << ",\"cb_scale\":" << jarr(ro.cb_scale) << ",\"final_args\":" << jvec(ro.final_args)
      << ",\"last_cb_args\":" << jvec(ro.cb_args.back()) << ",\"x0\":" << jvec(ro.cb_args.front());
    // distance of the result to the known minimiser (family-defined), of the start, and of every callback point
    o << ",\"dist_final\":\"" << hexd(ro.dist_final) << "\",\"dist_start\":\"" << hexd(ro.dist_start) << "\"";
    o << ",\"has_ref\":" << (prob.has_ref ? 1 : 0) << ",\"ref_grad\":\"" << hexd(prob.ref_grad) << "\",\"cb_dist\":" << jarr(ro.cb_dist);
    int bad = 0;
    std::string why;
    std::vector<double> acc;
    for (size_t k = 0; k < ro.its.size(); ++k) {
      if (!ro.its[k].recon_ok) {
        ++bad;
        if (why.empty()) why = ro.its[k].recon_why + "@" + std::to_string(k);
      }
      const long nxt = (k + 1 < ro.its.size()) ? ro.its[k + 1].cb_before : long(ro.cb_cost.size());
      acc.push_back(double(nxt - ro.its[k].cb_before));
    }
    o << ",\"recon_bad\":" << bad << ",\"recon_why\":\"" << why << "\"";
    if (ro.cb_args.size() <= 40 && ro.final_args.size() <= 12) {
      o << ",\"cb_args\":[";
      for (size_t k = 0; k < ro.cb_args.size(); ++k) o << (k ? "," : "") << jvec(ro.cb_args[k]);
      o << "]";
    }
    if (!extra_json.empty()) o << "," << extra_json;
    o << "}";
    std::fprintf(out, "%s\n", o.str().c_str());
  }
  // ---- opt_replay line: inputs = what the Lean state machine consumes, outputs = what the code did
  {
    std::ostringstream o;
    o << "opt_replay " << (cfg.strat == 0 ? "ceres" : "disney") << " f64";
    const double delta0 = cfg.strat == 0 ? 10000. : 1000.;
    o << ' ' << hexd(delta0) << ' ' << hexd(2.0) << ' ' << hexd(double(outs.size()));
    for (const RunOut & ro : outs) {
      o << ' ' << hexd(cfg.ftol) << ' ' << hexd(cfg.ptol) << ' ' << hexd(double(cfg.max_iter)) << ' ' << hexd(double(ro.its.size()));
      for (const IterRec & it : ro.its)
        o << ' ' << hexd(it.rn) << ' ' << hexd(it.fxpn) << ' ' << hexd(it.linn) << ' ' << hexd(it.ddxn) << ' ' << hexd(it.nsz);
    }
    o << " |";
    for (const RunOut & ro : outs) {
      for (size_t k = 0; k < ro.its.size(); ++k) {
        const IterRec & it = ro.its[k];
        const long nxt     = (k + 1 < ro.its.size()) ? ro.its[k + 1].cb_before : long(ro.cb_cost.size());
        o << ' ' << hexd(it.delta_before) << ' ' << hexd(it.rho) << ' ' << hexd(it.take) << ' '
          << hexd(double(nxt - it.cb_before)) << ' ' << hexd(it.delta_after);
      }
      o << ' ' << hexd(double(ro.iter)) << ' ' << hexd(double(ro.status)) << ' ' << hexd(double(ro.cb_cost.size()));
    }
    std::fprintf(out, "%s # %s/%d/%s\n", o.str().c_str(), family.c_str(), index, MODE_NAME[mode]);
  }
}

// ---------------------------------------------------------------- option strata
static RunCfg gen_cfg(Rng & rng)
{
  RunCfg c;
  c.strat = rng.below(2);
  static const double tols[] = {1e-6, 1e-6, 1e-6, 1e-12, 0.0, 1e-3, 1e10, 1e-9};
  c.ftol = tols[rng.below(8)];
  c.ptol = tols[rng.below(8)];
  static const std::size_t mi[] = {0, 1, 2, 3, 5, 10, 50, 200, 1000, 1000, 1000, 1000};
  c.max_iter = mi[rng.below(12)];
  c.calls    = rng.below(8) == 0 ? 2 : 1;
  return c;
}

static double dyad(Rng & r, int bits, double scale)
{
  const double q = std::ldexp(1.0, bits);
  return std::round(r.uni(-scale, scale) * q) / q;
}

// independent reference: plain Gauss–Newton from a given point until the gradient vanishes (used only
// to locate the minimiser of the perturbed alignment problems; not part of the code under test)
template<class P>
double refine_reference(P & prob, typename P::Args & xr, int iters = 60)
{
  double g = std::nan("");
  for (int k = 0; k < iters; ++k) {
    auto x          = refs(xr);
    const VectorXd r = std::apply(prob.f, x);
    const MatrixXd J = MatrixXd(std::apply([&](auto &... a) { return prob.f.jacobian(a...); }, x));
    const VectorXd grad = J.transpose() * r;
    g                   = grad.stableNorm();
    const VectorXd dx   = (J.transpose() * J).ldlt().solve(-grad);
    if (!(dx.stableNorm() > 1e-15)) break;
    auto xn = smooth::wrt_rplus(x, dx);
    xr      = typename P::Args(xn);
  }
  {
    auto x           = refs(xr);
    const VectorXd r = std::apply(prob.f, x);
    const MatrixXd J = MatrixXd(std::apply([&](auto &... a) { return prob.f.jacobian(a...); }, x));
    g                = (J.transpose() * r).stableNorm();
  }
  return g;
}

#include "optim_families.hpp"


#if PART == 1
// ---------------------------------------------------------------- default-options call sequences
// Independent minimize calls made with default-constructed MinimizeOptions must not influence each other:
// case k runs, IN ONE PROCESS and after cases 0..k-1,
//   A: a problem whose solve legitimately ends with a tiny trust region (r(x) = 1 + x^2 from a tiny x0: a run of
//      rejections), or one that starts at its minimiser, or an ordinary one — all with `MinimizeOptions{}`;
//   B: a well-conditioned linear least-squares problem with a fresh `MinimizeOptions{}`, and the same problem
//      with an explicitly constructed fresh CeresStrategy (the path every other family uses).
// Observed: trust-region size of a freshly default-constructed options object before A and after A (through the
// public `strat->get_delta()`), whether two default options objects share their strategy object, B's result
// under both option objects (must be bit-identical) and its distance to the QR solution.
struct DsPolyF
{
  Eigen::Matrix<double, 1, 1> operator()(const Eigen::Matrix<double, 1, 1> & x) const
  {
    return Eigen::Matrix<double, 1, 1>(1 + x(0) * x(0));
  }
  Eigen::Matrix<double, 1, 1> jacobian(const Eigen::Matrix<double, 1, 1> & x) const
  {
    return Eigen::Matrix<double, 1, 1>(2 * x(0));
  }
};

static void default_sequence(FILE * out, int n_cases, int only /* -1: print all */)
{
  for (int k = 0; k < n_cases; ++k) {
    Rng rng(seed_from_env() * 1000003ull + 424243ull + uint64_t(k) * 7919ull);
    std::ostringstream o;
    o << "DEFSEQ {\"k\":" << k << ",\"seed\":" << seed_from_env();
    {
      smooth::MinimizeOptions f0;
      o << ",\"delta_fresh_before\":\"" << hexd(f0.strat->get_delta()) << "\"";
      smooth::MinimizeOptions f1;
      o << ",\"shared_default_strategy\":" << (f0.strat.get() == f1.strat.get() ? 1 : 0);
    }
    // ---- call A
    const int akind = k % 3;
    int a_status = -1;
    std::size_t a_iter = 0;
    if (akind == 0) {
      DsPolyF f;
      Eigen::Matrix<double, 1, 1> x(rng.sign() * rng.logu(1e-7, 1e-3));
      const auto r = smooth::minimize<diff::Type::Analytic>(f, smooth::wrt(x));
      a_status = int(r.status); a_iter = r.iter;
    } else {
      MatrixXd A; VectorXd b, xs, x0; std::string tag;
      gen_lin(rng, 7, 4, akind == 1 ? 1 /* start at the minimiser */ : 0, A, b, xs, x0, tag);
      LinF<7, 4> f; f.A = A; f.b = b;
      Eigen::Matrix<double, 4, 1> x = x0;
      const auto r = smooth::minimize<diff::Type::Analytic>(f, smooth::wrt(x));
      a_status = int(r.status); a_iter = r.iter;
    }
    o << ",\"a_kind\":" << akind << ",\"a_status\":" << a_status << ",\"a_iter\":" << a_iter;
    {
      smooth::MinimizeOptions f2;
      o << ",\"delta_fresh_after\":\"" << hexd(f2.strat->get_delta()) << "\"";
    }
    // ---- call B: default options vs explicit fresh strategy
    MatrixXd A; VectorXd b, xs, x0; std::string tag;
    double kappa = 1e9;
    for (int tries = 0; tries < 50 && !(kappa <= 20.0); ++tries) kappa = gen_lin(rng, 7, 4, 0, A, b, xs, x0, tag);
    LinF<7, 4> f; f.A = A; f.b = b;
    const Eigen::Matrix<double, 4, 1> ref = A.colPivHouseholderQr().solve(b);
    Eigen::Matrix<double, 4, 1> xd = x0, xe = x0;
    const auto rd = smooth::minimize<diff::Type::Analytic>(f, smooth::wrt(xd));
    smooth::MinimizeOptions oe;
    oe.strat = std::make_shared<smooth::CeresStrategy>();
    const auto re = smooth::minimize<diff::Type::Analytic>(f, smooth::wrt(xe), oe);
    o << ",\"kappa\":\"" << hexd(kappa) << "\",\"b_status_default\":" << int(rd.status) << ",\"b_iter_default\":" << rd.iter
      << ",\"b_status_explicit\":" << int(re.status) << ",\"b_iter_explicit\":" << re.iter
      << ",\"b_x_default\":" << jvec(VectorXd(xd)) << ",\"b_x_explicit\":" << jvec(VectorXd(xe)) << ",\"b_x0\":" << jvec(x0)
      << ",\"b_dist_default\":\"" << hexd((xd - ref).norm()) << "\",\"b_dist_explicit\":\"" << hexd((xe - ref).norm())
      << "\",\"b_dist_start\":\"" << hexd((x0 - ref).norm()) << "\"}";
    if (only < 0 || only == k) std::fprintf(out, "%s\n", o.str().c_str());
  }
}
#endif

int main(int argc, char ** argv)
{
#if PART == 1
  if (argc > 2 && std::string(argv[1]) == "defseq") {  // replay of one default-options case (history 0..k included)
    default_sequence(stdout, std::atoi(argv[2]) + 1, std::atoi(argv[2]));
    return 0;
  }
#endif
  if (argc > 3 && std::string(argv[1]) == "run") {
    run_one(stdout, std::atoi(argv[2]), std::atoi(argv[3]));
    return 0;
  }
  const int n = argc > 2 ? std::atoi(argv[2]) : 20;
  for (int fam = 0; fam < n_families(); ++fam)
    for (int i = 0; i < n; ++i) run_one(stdout, fam, i);
#if PART == 1
  default_sequence(stdout, std::max(12, n / 4), -1);
#endif
  return 0;
}
#endif
